// Package brokrig: the broker-connection rig of C14 ("each broker call gets its own response or an
// error", DESIGN.md §6). ONE real sarama.Broker, opened through Config.Net.Proxy.Dialer on a net.Pipe
// whose other end is a ~100-line scripted server living in the same synctest bubble. Everything the
// server does with a request is a controller choice (an actor with variants), every application call
// is started by its own actor, time passes only through the tick actor.
//
// Scenario name: brok?nc=<callers>&nk=<calls per caller>&max=<Net.MaxOpenRequests>&pol=<calls|answers>
package brokrig

import (
	"errors"
	"fmt"
	"net"
	"net/url"
	"sort"
	"strconv"
	"strings"
	"sync"
	"testing/synctest"
	"time"

	"github.com/Shopify/sarama"

	"verif/engine/gx"
)

const Prop = "C14"

// ReadTimeout is Net.ReadTimeout of the broker under test; "tick:read-timeout" lets (a little more than) it pass.
const ReadTimeout = time.Second

type Params struct {
	NC, NK, Max int
	Pol         string // calls: start calls before answering (requests pile up); answers: answer first (one at a time)
	Close       bool
}

func atoi(v url.Values, k string, def int) (int, error) {
	s := v.Get(k)
	if s == "" {
		return def, nil
	}
	return strconv.Atoi(s)
}

func Parse(v url.Values) (*Params, error) {
	p := &Params{Pol: v.Get("pol")}
	var err error
	if p.NC, err = atoi(v, "nc", 2); err != nil {
		return nil, err
	}
	if p.NK, err = atoi(v, "nk", 2); err != nil {
		return nil, err
	}
	if p.Max, err = atoi(v, "max", 1); err != nil {
		return nil, err
	}
	cl, err := atoi(v, "close", 1)
	if err != nil {
		return nil, err
	}
	p.Close = cl == 1
	if p.Pol == "" {
		p.Pol = "calls"
	}
	if p.Pol != "calls" && p.Pol != "answers" {
		return nil, fmt.Errorf("brok: unknown pol %q", p.Pol)
	}
	if p.NC < 1 || p.NC > 4 || p.NK < 1 || p.NK > 3 || p.Max < 1 {
		return nil, fmt.Errorf("brok: parameters out of range: %+v", *p)
	}
	return p, nil
}

func init() {
	gx.RegisterRig("brok", func(v url.Values) (*gx.Scenario, error) {
		p, err := Parse(v)
		if err != nil {
			return nil, err
		}
		return &gx.Scenario{Run: func(c *gx.Ctl) *gx.Outcome { return run(c, p) }}, nil
	})
}

// ---------------------------------------------------------------------------------------------
// application side

type call struct {
	id      string // "c<caller>k<k>": also the topic the request names, so the server knows whose request it reads
	caller  int
	k       int
	kind    string // meta | offs
	started bool
	startAt int // logical step (decision ordinal) at which it was started
	done    bool
	doneAt  int // logical step during which it returned
	err     error
	// what a returned response says
	gotTopic string
	gotNonce int64
	gotShape string // "" = well-formed for the kind
}

func kindOf(caller, k int) string {
	if (caller+k)%2 == 1 {
		return "offs"
	}
	return "meta"
}

// ---------------------------------------------------------------------------------------------
// server side

type sreq struct {
	seq      int
	corr     int32
	kind     string
	callID   string // decoded from the request body, independent of the correlation id
	answered string // "" = received and not answered; else the variant that consumed it
}

// sent is one response body the server put (or tried to put) on the wire.
type sent struct {
	nonce       int64
	forCall     string // the request whose answer this body is
	how         string // variant
	deliverable bool   // true only for a faithful answer carrying the correlation id of the request it answers, sent in order
}

type server struct {
	mu      sync.Mutex
	sv      net.Conn
	reqs    []*sreq
	pending []*sreq
	closed  bool // the server closed, or saw the client close, the connection
	stalled bool // the server went silent for good: it keeps reading requests and never answers again
	sent    []*sent
	out     chan wop
	nonce   int64
	decErr  string
}

type wop struct {
	data []byte
}

// reader: requests are taken off the wire as they arrive (like a socket buffer + a broker's network thread).
func (s *server) reader() {
	for {
		r, err := sarama.VerifDecodeRequest(s.sv)
		if err != nil {
			s.mu.Lock()
			s.closed = true
			if !errors.Is(err, net.ErrClosed) && err.Error() != "EOF" && !strings.Contains(err.Error(), "closed pipe") {
				s.decErr = err.Error()
			}
			s.mu.Unlock()
			return
		}
		q := &sreq{corr: r.CorrelationID}
		switch b := r.Body.(type) {
		case *sarama.MetadataRequest:
			q.kind = "meta"
			if len(b.Topics) == 1 {
				q.callID = b.Topics[0]
			}
		case *sarama.OffsetRequest:
			q.kind = "offs"
			if bl := sarama.VerifOffsetBlocks(b); len(bl) == 1 {
				q.callID = bl[0].Topic
			}
		default:
			q.kind = fmt.Sprintf("%T", r.Body)
		}
		s.mu.Lock()
		q.seq = len(s.reqs)
		s.reqs = append(s.reqs, q)
		s.pending = append(s.pending, q)
		s.mu.Unlock()
	}
}

// writer: ONE goroutine writes, in order (two concurrent writers would queue on net.Pipe's real mutex,
// which is not a durable block). A write nobody reads (the client's receive loop is dead) stays blocked
// until teardown; everything queued behind it is never sent – nobody would read it either.
func (s *server) writer() {
	for op := range s.out {
		_, _ = s.sv.Write(op.data)
	}
}

// cutAndClose sends the beginning of a frame, lets the client consume it (quiescence), then closes the
// connection. Two separate moments on purpose: if the close could overtake the client's processing of
// the bytes, Broker.readFull would fail either in SetReadDeadline ("closed pipe") or in the read
// ("unexpected EOF") depending on goroutine scheduling the controller does not own; both are errors
// for the property, but the observation must be reproducible.
func (s *server) cutAndClose(part []byte) {
	s.out <- wop{data: part}
	synctest.Wait()
	s.sv.Close()
}

// body encodes the faithful response body for q carrying a fresh nonce.
func (s *server) body(q *sreq, how string, deliverable bool) []byte {
	s.nonce++
	n := 1000 + s.nonce
	var body interface{}
	switch q.kind {
	case "meta":
		m := &sarama.MetadataResponse{}
		m.AddBroker("h:9092", int32(n))
		m.AddTopic(q.callID, sarama.ErrNoError)
		body = m
	case "offs":
		o := &sarama.OffsetResponse{}
		o.AddTopicPartition(q.callID, 0, n)
		body = o
	default:
		panic("brokrig: unexpected request kind " + q.kind)
	}
	b, err := sarama.VerifEncode(body)
	if err != nil {
		panic(err)
	}
	s.sent = append(s.sent, &sent{nonce: n, forCall: q.callID, how: how, deliverable: deliverable})
	return b
}

// ---------------------------------------------------------------------------------------------

type rig struct {
	p      *Params
	c      *gx.Ctl
	mu     sync.Mutex
	step   int
	calls  [][]*call
	broker *sarama.Broker
	srv    *server

	closeStarted, closeDone bool
	closeErr                error

	// first fault of the connection as injected by the harness: a faulty server action, or a full
	// ReadTimeout of silence while a call was outstanding
	faultAt   int
	faultKind string
	faults    []string

	maxWire   int
	maxWireAt int
	wireTrace []string
}

func (r *rig) allCalls() []*call {
	var l []*call
	for _, cs := range r.calls {
		l = append(l, cs...)
	}
	return l
}

func (r *rig) byID(id string) *call {
	for _, c := range r.allCalls() {
		if c.id == id {
			return c
		}
	}
	return nil
}

func (r *rig) outstanding() int {
	n := 0
	for _, c := range r.allCalls() {
		if c.started && !c.done {
			n++
		}
	}
	return n
}

func (r *rig) noteFault(kind string) {
	r.faults = append(r.faults, kind)
	if r.faultKind == "" {
		r.faultKind = kind
		r.faultAt = r.step
	}
}

func run(c *gx.Ctl, p *Params) *gx.Outcome {
	r := &rig{p: p, c: c, faultAt: -1}
	for i := 0; i < p.NC; i++ {
		var cs []*call
		for k := 0; k < p.NK; k++ {
			cs = append(cs, &call{id: fmt.Sprintf("c%dk%d", i, k), caller: i, k: k, kind: kindOf(i, k)})
		}
		r.calls = append(r.calls, cs)
	}
	cli, sv := net.Pipe()
	r.srv = &server{sv: sv, out: make(chan wop, 64)}
	go r.srv.reader()
	go r.srv.writer()

	conf := sarama.NewConfig()
	conf.Version = sarama.V1_0_0_0
	conf.Net.MaxOpenRequests = p.Max
	conf.Net.ReadTimeout = ReadTimeout
	conf.Net.Proxy.Enable = true
	conf.Net.Proxy.Dialer = dialer{cli}
	r.broker = sarama.NewBroker("b1:9092")
	if err := r.broker.Open(conf); err != nil {
		panic(fmt.Sprintf("brokrig: Broker.Open: %v", err)) // harness problem: reported as engine error, never a verdict
	}

	c.Providers = append(c.Providers, r.actors)
	c.Digest = r.digest
	c.Loop(func() bool {
		r.mu.Lock()
		defer r.mu.Unlock()
		for _, cl := range r.allCalls() {
			if !cl.done {
				return false
			}
		}
		return !p.Close || r.closeDone
	})
	out := r.judge()
	// teardown: unblock whatever still waits, close both ends
	c.ReleaseAll()
	r.srv.sv.Close()
	close(r.srv.out)
	go func() { _ = r.broker.Close() }()
	synctest.Wait()
	cli.Close()
	synctest.Wait()
	return out
}

type dialer struct{ c net.Conn }

func (d dialer) Dial(network, addr string) (net.Conn, error) { return d.c, nil }

// wire counts, at a quiescent point, the requests the server has fully received and not answered in
// any way and whose caller is still waiting: the requests "on the wire awaiting a response".
func (r *rig) wire() (int, []string) {
	s := r.srv
	s.mu.Lock()
	defer s.mu.Unlock()
	var ids []string
	for _, q := range s.pending {
		if cl := r.byID(q.callID); cl != nil && cl.started && !cl.done {
			ids = append(ids, q.callID)
		}
	}
	return len(ids), ids
}

func (r *rig) actors() []gx.Actor {
	r.mu.Lock()
	defer r.mu.Unlock()
	if n, ids := r.wire(); n > r.maxWire {
		r.maxWire, r.maxWireAt, r.wireTrace = n, r.step, ids
	}
	p := r.p
	var acts []gx.Actor
	callRank, ansRank := 0, 1
	if p.Pol == "answers" {
		callRank, ansRank = 1, 0
	}
	// one actor per caller: its next call (a caller is sequential)
	for i := range r.calls {
		for _, cl := range r.calls[i] {
			if cl.done {
				continue
			}
			if !cl.started {
				cl := cl
				acts = append(acts, gx.Actor{Label: fmt.Sprintf("call:%d:%d", cl.caller, cl.k), Rank: callRank, Variants: []gx.Variant{{Do: func() { r.startCall(cl) }}}})
			}
			break
		}
	}
	if a := r.answerActor(ansRank); a != nil {
		acts = append(acts, *a)
	}
	busy := r.outstanding() > 0 || (r.closeStarted && !r.closeDone)
	if busy && r.c.Trailing("tick:") < 2 {
		acts = append(acts, gx.Actor{Label: "tick:read-timeout", Rank: 3, Variants: []gx.Variant{{Do: func() {
			r.mu.Lock()
			r.step++
			if r.outstanding() > 0 {
				r.noteFault("read-timeout")
			}
			r.mu.Unlock()
			time.Sleep(ReadTimeout + time.Millisecond)
		}}}})
	}
	if p.Close && !r.closeStarted {
		acts = append(acts, gx.Actor{Label: "close", Rank: 4, Variants: []gx.Variant{{Do: func() {
			r.mu.Lock()
			r.step++
			r.closeStarted = true
			r.mu.Unlock()
			go func() {
				err := r.broker.Close()
				r.mu.Lock()
				r.closeDone, r.closeErr = true, err
				r.mu.Unlock()
			}()
		}}}})
	}
	return acts
}

func (r *rig) startCall(cl *call) {
	r.mu.Lock()
	r.step++
	cl.started, cl.startAt = true, r.step
	r.mu.Unlock()
	go func() {
		var err error
		topic, nonce, shape := "", int64(0), ""
		switch cl.kind {
		case "meta":
			var m *sarama.MetadataResponse
			m, err = r.broker.GetMetadata(&sarama.MetadataRequest{Topics: []string{cl.id}})
			if err == nil {
				if len(m.Topics) != 1 || len(m.Brokers) != 1 {
					shape = fmt.Sprintf("metadata response with %d topics, %d brokers", len(m.Topics), len(m.Brokers))
				} else {
					topic, nonce = m.Topics[0].Name, int64(m.Brokers[0].ID())
				}
			}
		case "offs":
			req := &sarama.OffsetRequest{}
			req.AddBlock(cl.id, 0, sarama.OffsetNewest, 1)
			var o *sarama.OffsetResponse
			o, err = r.broker.GetAvailableOffsets(req)
			if err == nil {
				if len(o.Blocks) != 1 {
					shape = fmt.Sprintf("offset response with %d topics", len(o.Blocks))
				}
				for t, ps := range o.Blocks {
					topic = t
					if b := ps[0]; len(ps) == 1 && b != nil && len(b.Offsets) == 1 {
						nonce = b.Offsets[0]
					} else {
						shape = "offset response without the single partition-0 offset"
					}
				}
			}
		}
		r.mu.Lock()
		cl.done, cl.doneAt, cl.err = true, r.step, err
		cl.gotTopic, cl.gotNonce, cl.gotShape = topic, nonce, shape
		r.mu.Unlock()
	}()
}

// answerActor: the server acts on the OLDEST unanswered request of the connection. Variant 0 is the
// faithful answer. After the first faulty server action only the faithful answer is offered (the
// connection is broken from then on; one server fault per execution, any number of read timeouts).
func (r *rig) answerActor(rank int) *gx.Actor {
	s := r.srv
	s.mu.Lock()
	defer s.mu.Unlock()
	if s.closed || s.stalled || len(s.pending) == 0 {
		return nil
	}
	q := s.pending[0]
	var next *sreq
	if len(s.pending) > 1 {
		next = s.pending[1]
	}
	serverFaulted := false
	for _, f := range r.faults {
		if f != "read-timeout" && f != "stall" {
			serverFaulted = true
		}
	}
	take := func(how string, fault bool) {
		r.mu.Lock()
		r.step++
		if fault {
			r.noteFault(how)
		}
		r.mu.Unlock()
		s.mu.Lock()
		q.answered = how
		s.pending = s.pending[1:]
		s.mu.Unlock()
	}
	frame := func(corr int32, body []byte) []byte { return sarama.VerifFrameResponse(corr, 0, body) }
	hdr := func(length int32, corr int32) []byte {
		l, c := uint32(length), uint32(corr)
		return []byte{byte(l >> 24), byte(l >> 16), byte(l >> 8), byte(l), byte(c >> 24), byte(c >> 16), byte(c >> 8), byte(c)}
	}
	vs := []gx.Variant{{Name: "ok", Do: func() {
		take("ok", false)
		s.mu.Lock()
		b := s.body(q, "ok", true)
		s.mu.Unlock()
		s.out <- wop{data: frame(q.corr, b)}
	}}}
	if !serverFaulted {
		if next != nil {
			// out of order: the complete, well-formed answer to the NEXT request (its id, its content) comes first
			vs = append(vs, gx.Variant{Name: "swap-id", Do: func() {
				take("swap-id", true)
				s.mu.Lock()
				b := s.body(next, "swap-id", false)
				s.mu.Unlock()
				s.out <- wop{data: frame(next.corr, b)}
			}})
		}
		vs = append(vs,
			gx.Variant{Name: "bad-id", Do: func() { // the right content under a correlation id that was never used
				take("bad-id", true)
				s.mu.Lock()
				b := s.body(q, "bad-id", false)
				s.mu.Unlock()
				s.out <- wop{data: frame(q.corr+1000, b)}
			}},
			gx.Variant{Name: "stale-id", Do: func() { // a duplicate of an earlier answer (lower correlation id) precedes the proper answer
				take("stale-id", true)
				s.mu.Lock()
				b := s.body(q, "stale-id", false)
				b2 := s.body(q, "after-stale-id", false)
				s.mu.Unlock()
				s.out <- wop{data: frame(q.corr-1, b)}
				s.out <- wop{data: frame(q.corr, b2)}
			}},
			gx.Variant{Name: "trunc-hdr", Do: func() { // 6 of the 8 header bytes, then the connection goes away
				take("trunc-hdr", true)
				s.mu.Lock()
				b := s.body(q, "trunc-hdr", false)
				s.closed = true
				s.mu.Unlock()
				s.cutAndClose(frame(q.corr, b)[:6])
			}},
			gx.Variant{Name: "trunc-body", Do: func() { // header complete, body cut, then the connection goes away
				take("trunc-body", true)
				s.mu.Lock()
				b := s.body(q, "trunc-body", false)
				s.closed = true
				s.mu.Unlock()
				f := frame(q.corr, b)
				s.cutAndClose(f[:8+(len(f)-8)/2])
			}},
			gx.Variant{Name: "len-huge", Do: func() { // length field > MaxResponseSize; the connection stays open
				take("len-huge", true)
				s.out <- wop{data: hdr(sarama.MaxResponseSize+1, q.corr)}
			}},
			gx.Variant{Name: "len-small", Do: func() { // length field too small to hold a correlation id
				take("len-small", true)
				s.out <- wop{data: hdr(4, q.corr)}
			}},
			gx.Variant{Name: "len-neg", Do: func() {
				take("len-neg", true)
				s.out <- wop{data: hdr(-1, q.corr)}
			}},
			gx.Variant{Name: "stall", Do: func() { // silence for ever: this and all later requests stay unanswered (they keep counting as on the wire)
				r.mu.Lock()
				r.step++
				r.faults = append(r.faults, "stall") // the connection fault itself is the read timeout that must follow
				r.mu.Unlock()
				s.mu.Lock()
				s.stalled = true
				s.mu.Unlock()
			}},
			gx.Variant{Name: "close", Do: func() { // abrupt close, nothing sent
				take("close", true)
				s.mu.Lock()
				s.closed = true
				s.mu.Unlock()
				s.sv.Close()
			}},
		)
	}
	return &gx.Actor{Label: "ans", Rank: rank, Variants: vs}
}

func (r *rig) digest() string {
	r.mu.Lock()
	defer r.mu.Unlock()
	var sb strings.Builder
	for _, cl := range r.allCalls() {
		switch {
		case !cl.started:
			sb.WriteString("-")
		case !cl.done:
			sb.WriteString("w")
		case cl.err != nil:
			sb.WriteString("e")
		default:
			sb.WriteString("k")
		}
	}
	s := r.srv
	s.mu.Lock()
	sb.WriteString("|")
	for _, q := range s.pending {
		sb.WriteString(q.callID + ",")
	}
	fmt.Fprintf(&sb, "|sc=%v%v", s.closed, s.stalled)
	s.mu.Unlock()
	fmt.Fprintf(&sb, "|f=%v|cl=%v%v", r.faults, r.closeStarted, r.closeDone)
	return sb.String()
}

func errClass(err error) string {
	if err == nil {
		return "ok"
	}
	return "err(" + err.Error() + ")"
}

// judge is the oracle: exactly the clauses of property C14.
func (r *rig) judge() *gx.Outcome {
	r.mu.Lock()
	defer r.mu.Unlock()
	p := r.p
	o := &gx.Outcome{}
	var det strings.Builder
	s := r.srv
	s.mu.Lock()
	defer s.mu.Unlock()
	byNonce := map[int64]*sent{}
	for _, x := range s.sent {
		byNonce[x.nonce] = x
	}
	fmt.Fprintf(&det, "config: MaxOpenRequests=%d ReadTimeout=%v callers=%d x %d calls, policy %s\n", p.Max, ReadTimeout, p.NC, p.NK, p.Pol)
	for _, q := range s.reqs {
		fmt.Fprintf(&det, "server: request #%d corr=%d %s for %s -> %s\n", q.seq, q.corr, q.kind, q.callID, map[bool]string{true: "never answered", false: q.answered}[q.answered == ""])
	}
	if s.decErr != "" { // not a clause of the property: information only (the calls' fate is judged below)
		o.Stat("info:server-cannot-decode-request")
		fmt.Fprintf(&det, "INFO the server could not decode a request frame: %s\n", s.decErr)
	}
	after := r.faultKind
	if after == "" {
		after = "none"
	}
	var obs []string
	var hung []string
	for _, cl := range r.allCalls() {
		switch {
		case !cl.started:
			obs = append(obs, cl.id+"=not-started")
			continue
		case !cl.done:
			obs = append(obs, cl.id+"=HANGS")
			hung = append(hung, cl.id)
			continue
		}
		obs = append(obs, cl.id+"="+errClass(cl.err))
		fmt.Fprintf(&det, "call %s (%s) started at step %d, returned during step %d: %s", cl.id, cl.kind, cl.startAt, cl.doneAt, errClass(cl.err))
		if cl.err != nil {
			det.WriteString("\n")
			o.Stat("call-error")
			continue
		}
		fmt.Fprintf(&det, " topic=%q nonce=%d\n", cl.gotTopic, cl.gotNonce)
		o.Stat("call-ok")
		x := byNonce[cl.gotNonce]
		switch {
		case cl.gotShape != "":
			o.Violate(Prop, "malformed-response-delivered kind="+cl.kind, "call %s returned success with a response the server never sent: %s", cl.id, cl.gotShape)
		case x == nil:
			o.Violate(Prop, "unknown-response-delivered kind="+cl.kind, "call %s returned success with a response (topic %q, nonce %d) the server never sent", cl.id, cl.gotTopic, cl.gotNonce)
		case x.forCall != cl.id || cl.gotTopic != cl.id:
			o.Violate(Prop, "wrong-response-delivered server-action="+x.how, "call %s returned the response the server produced for request %s (topic %q, nonce %d, server action %q): another call's response", cl.id, x.forCall, cl.gotTopic, cl.gotNonce, x.how)
		case !x.deliverable:
			o.Violate(Prop, "mismatched-id-response-delivered server-action="+x.how, "call %s was handed a response whose correlation id did not match the oldest outstanding request (server action %q); it must be treated as a connection fault, not delivered", cl.id, x.how)
		}
		if r.faultAt >= 0 && cl.doneAt >= r.faultAt {
			o.Violate(Prop, "response-after-connection-fault fault="+r.faultKind, "connection fault %q at step %d; call %s (started at step %d) returned a RESPONSE during step %d – every outstanding and later call must return an error", r.faultKind, r.faultAt, cl.id, cl.startAt, cl.doneAt)
		}
	}
	if len(hung) > 0 {
		sort.Strings(hung)
		o.Violate(Prop, fmt.Sprintf("call-hangs after-fault=%s", after), "calls %v never returned (30 fake minutes after the last action, all deadlines expired); first connection fault: %s; close started=%v returned=%v", hung, after, r.closeStarted, r.closeDone)
	}
	if p.Close && r.closeStarted && !r.closeDone {
		obs = append(obs, "close=HANGS")
		// Close itself is C12's subject, not a clause of C14: information only
		o.Stat("info:close-hangs")
		fmt.Fprintf(&det, "INFO Broker.Close never returned (calls hung: %v)\n", hung)
	} else if p.Close {
		obs = append(obs, "close="+errClass(r.closeErr))
	}
	if r.maxWire > p.Max {
		o.Violate(Prop, fmt.Sprintf("wire-exceeds-max-open-requests max=%d observed=%d", p.Max, r.maxWire),
			"Net.MaxOpenRequests=%d but at the decision point after step %d the server had fully received %d requests that were unanswered and whose callers were still waiting: %v", p.Max, r.maxWireAt, r.maxWire, r.wireTrace)
	}
	for _, pn := range r.c.Panics { // information only: what the panic does to the calls is judged above
		first, _, _ := strings.Cut(pn, "\n")
		o.Stat("info:panic-in-sarama-goroutine")
		fmt.Fprintf(&det, "INFO panic in a sarama goroutine: %s\n", first)
	}
	obs = append(obs, fmt.Sprintf("wire=%d", r.maxWire))
	o.Obs = strings.Join(obs, " ")
	for _, f := range r.faults {
		o.Stat("fault:" + f)
	}
	if r.closeStarted && r.outstandingAtClose() {
		o.Stat("close-raced-with-calls")
	}
	o.Stat(fmt.Sprintf("max-wire:%d/max=%d", r.maxWire, p.Max))
	fmt.Fprintf(&det, "faults injected: %v (first at step %d)\nmax requests on the wire awaiting a response: %d (limit %d) %v\nclose: started=%v done=%v %s\n", r.faults, r.faultAt, r.maxWire, p.Max, r.wireTrace, r.closeStarted, r.closeDone, errClass(r.closeErr))
	o.Detail = det.String()
	return o
}

// outstandingAtClose: did some call start before close and return after close had started? (coverage only)
func (r *rig) outstandingAtClose() bool {
	for _, cl := range r.allCalls() {
		if cl.done && cl.err != nil && errors.Is(cl.err, sarama.ErrNotConnected) {
			return true
		}
	}
	return false
}
