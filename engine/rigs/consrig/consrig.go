// Package consrig: real NewClient + NewConsumerFromClient + ConsumePartition against simkafka's
// consumer-side log (independently encoded batches), with the oracles of C03, C11, C18 (consumer
// half) and C12 (consumer part).
package consrig

import (
	"bytes"
	"fmt"
	"net/url"
	"os"
	"strconv"
	"strings"
	"sync"
	"testing/synctest"
	"time"

	"github.com/Shopify/sarama"

	"verif/engine/gx"
	"verif/engine/simkafka"
)

type Params struct {
	N          int
	Cuts       int
	Fmts       []int
	Codec      int
	Ctl        bool // trailing control batch
	Start      string
	Version    sarama.KafkaVersion
	FetchSz    int
	FetchMax   int // Consumer.Fetch.Max
	BPF        int
	Buf        int
	NParts     int
	NBrokers   int
	Faults     []string
	MetaFaults []string // metadata answer faults (leader-unavailable, unknown-topic, drop)
	Slow       bool
	Gates      map[string]bool
	RC         bool
	Txn        []string // transactional log spec (C11): dA dB dN cA cB aA aB
	AbOrder    int      // permutation index of the aborted index
	Icpt       int
	IcptNil    int // >0: the chain entry at this (1-based) position is nil (calling it panics: contained)
	IcptPanic  int // >0: the consumer interceptor at this (1-based) position panics after counting itself
	CloseAny   bool
	BoFunc     bool // Consumer.Retry.BackoffFunc instead of Retry.Backoff
	ESlow      bool // the application reads Errors() only after it has asked for shutdown (and then with a delay)
	AsyncOnly  bool // closeany: consumer and client are closed right after AsyncClose of the partition consumers
	Move       bool
	Append     bool
	AppendPart int   // partition that receives the late record (app=k: partition k-1)
	AppendMode int   // the app= value (3: partition 0 first, partition 1 after everything was delivered)
	Base       int64 // first offset of the log (log start)
}

func atoi(v url.Values, k string, def int) int {
	if s := v.Get(k); s != "" {
		n, err := strconv.Atoi(s)
		if err != nil {
			panic(err)
		}
		return n
	}
	return def
}

func Parse(v url.Values) (*Params, error) {
	p := &Params{N: atoi(v, "n", 3), Cuts: atoi(v, "cuts", 0), Codec: atoi(v, "codec", 1), Ctl: atoi(v, "ctl", 0) == 1,
		Start: v.Get("start"), FetchSz: atoi(v, "fsz", 0), FetchMax: atoi(v, "fmax", 0), BPF: atoi(v, "bpf", 0), Buf: atoi(v, "buf", 0), NParts: atoi(v, "np", 1),
		NBrokers: atoi(v, "nb", 1), Slow: atoi(v, "slow", 0) == 1, RC: v.Get("iso") == "rc", AbOrder: atoi(v, "abo", 0), Icpt: atoi(v, "icpt", 0), IcptPanic: atoi(v, "icptpanic", 0),
		CloseAny: atoi(v, "closeany", 0) == 1, ESlow: atoi(v, "eslow", 0) == 1, IcptNil: atoi(v, "icptnil", 0), BoFunc: atoi(v, "bofunc", 0) == 1, AsyncOnly: atoi(v, "aclose", 0) == 1, Move: atoi(v, "move", 0) == 1, Append: atoi(v, "app", 0) >= 1, AppendPart: max(atoi(v, "app", 0)-1, 0) % 2, AppendMode: atoi(v, "app", 0), Base: int64(atoi(v, "base", 0))}
	if p.Start == "" {
		p.Start = "old"
	}
	ver := v.Get("ver")
	if ver == "" {
		ver = "2.1.0"
	}
	kv, err := sarama.ParseKafkaVersion(ver)
	if err != nil {
		return nil, err
	}
	p.Version = kv
	fm := v.Get("fmts")
	if fm == "" {
		fm = "5"
	}
	for _, x := range strings.Split(fm, ",") {
		n, err := strconv.Atoi(x)
		if err != nil {
			return nil, err
		}
		p.Fmts = append(p.Fmts, n)
	}
	if s := v.Get("faults"); s != "" {
		p.Faults = strings.Split(s, ",")
	}
	if s := v.Get("mfaults"); s != "" {
		p.MetaFaults = strings.Split(s, ",")
	}
	if s := v.Get("txn"); s != "" {
		p.Txn = strings.Split(s, ",")
	}
	p.Gates = map[string]bool{}
	if s := v.Get("gates"); s != "" {
		for _, g := range strings.Split(s, ",") {
			p.Gates[g] = true
		}
	}
	return p, nil
}

func init() {
	gx.RegisterRig("cons", func(v url.Values) (*gx.Scenario, error) {
		p, err := Parse(v)
		if err != nil {
			return nil, err
		}
		return &gx.Scenario{Run: func(c *gx.Ctl) *gx.Outcome { return run(c, p) }}, nil
	})
}

// Want is one record the application must see.
type Want struct {
	Off     int64
	Key     []byte
	Value   []byte
	Headers [][2][]byte
	TS      time.Time
	HasTS   bool
}

var t0 = time.Date(2020, 1, 1, 0, 0, 0, 0, time.UTC)

func recAt(i int64) simkafka.StoredRec {
	r := simkafka.StoredRec{Timestamp: t0.Add(time.Duration(i) * time.Second)}
	switch i % 3 {
	case 0:
		r.Key, r.Value = nil, []byte(fmt.Sprintf("v%d", i))
	case 1:
		r.Key, r.Value = []byte(fmt.Sprintf("k%d", i)), []byte{}
	case 2:
		r.Key, r.Value = []byte{}, []byte(fmt.Sprintf("value-%d-%s", i, strings.Repeat("x", int(i))))
		r.Headers = [][2][]byte{{[]byte("h"), []byte{}}, {[]byte("h2"), []byte("w")}}
	}
	return r
}

// BuildLog builds the stored batches and the list of application-visible records of one partition.
func BuildLog(p *Params, part int32) ([]*simkafka.StoredBatch, []Want) {
	if len(p.Txn) > 0 {
		return buildTxnLog(p)
	}
	var batches []*simkafka.StoredBatch
	var want []Want
	appendTime := t0.Add(1000 * time.Hour)
	off := p.Base
	bi := 0
	n := p.N + int(part) // partitions get logs of different length
	for i := 0; i < n; {
		j := i + 1
		for j < n && p.Cuts&(1<<(j-1)) == 0 {
			j++
		}
		f := p.Fmts[bi%len(p.Fmts)]
		bi++
		b := &simkafka.StoredBatch{Base: off, PID: -1, Epoch: -1, FirstSeq: -1, AppendTime: appendTime}
		switch f {
		case 0:
			b.Magic = 0
		case 1:
			b.Magic, b.Codec = 0, p.Codec
		case 2:
			b.Magic = 1
		case 3:
			b.Magic, b.Codec = 1, p.Codec
		case 4:
			b.Magic, b.Codec, b.LogAppendTime = 1, p.Codec, true
		case 5:
			b.Magic = 2
		case 6:
			b.Magic, b.Codec = 2, p.Codec
		case 7:
			b.Magic, b.LogAppendTime = 2, true
		case 8:
			b.Magic = 2 // with compaction gaps, below
		case 9:
			b.Magic, b.LogAppendTime = 1, true // plain v1 messages with LogAppendTime
		case 10:
			b.Magic, b.Codec = 1, p.Codec // v1 wrapper of a compacted topic: inner relative offsets with a gap
		default:
			panic("format")
		}
		if b.Magic < 2 && (b.Codec == simkafka.CodecZstd) {
			b.Codec = simkafka.CodecGzip
		}
		cnt := j - i
		for k := 0; k < cnt; k++ {
			r := recAt(off + int64(k))
			r.Delta = int64(k)
			if b.Magic < 2 {
				r.Headers = nil
			}
			b.Recs = append(b.Recs, r)
		}
		b.LastOffsetDelta = int32(cnt - 1)
		if f == 10 && cnt >= 3 {
			// the log cleaner removed the second record; the wrapper keeps the last retained offset
			b.Recs = append([]simkafka.StoredRec{b.Recs[0]}, b.Recs[2:]...)
		}
		if f == 8 && cnt >= 2 {
			// compaction removed the last record of the batch (the batch keeps its last offset delta),
			// and, with three or more records, also the second one
			keep := []simkafka.StoredRec{b.Recs[0]}
			if cnt >= 3 {
				keep = append(keep, b.Recs[2:cnt-1]...)
			}
			b.Recs = keep
		}
		for _, r := range b.Recs {
			w := Want{Off: b.Base + r.Delta, Key: r.Key, Value: r.Value, Headers: r.Headers}
			switch {
			case b.Magic == 0:
			case b.LogAppendTime:
				w.TS, w.HasTS = appendTime, true
			default:
				w.TS, w.HasTS = r.Timestamp, true
			}
			want = append(want, w)
		}
		if b.Magic < 2 && b.Codec == simkafka.CodecNone {
			// uncompressed legacy messages are individual log entries: a broker positions a fetch at the
			// first message with offset >= the fetch offset, it never returns earlier ones
			for _, r := range b.Recs {
				one := *b
				one.Base = b.Base + r.Delta
				r.Delta = 0
				one.Recs = []simkafka.StoredRec{r}
				one.LastOffsetDelta = 0
				batches = append(batches, &one)
			}
		} else {
			batches = append(batches, b)
		}
		off += int64(cnt)
		i = j
	}
	if p.Ctl {
		batches = append(batches, simkafka.ControlBatch(off, 77, 0, true, t0))
	}
	return batches, want
}

// buildTxnLog: alphabet dA dB (transactional data of producer A/B), dN (non-transactional data),
// cA cB (commit markers), aA aB (abort markers). Data batches carry two records.
func buildTxnLog(p *Params) ([]*simkafka.StoredBatch, []Want) {
	pids := map[byte]int64{'A': 100, 'B': 200}
	var batches []*simkafka.StoredBatch
	var all []Want
	visible := map[int]bool{}
	open := map[byte][]int{}
	off := int64(0)
	for _, e := range p.Txn {
		kind, who := e[0], e[1]
		switch kind {
		case 'd':
			b := &simkafka.StoredBatch{Base: off, Magic: 2, PID: -1, Epoch: -1, FirstSeq: -1}
			if who != 'N' {
				b.PID, b.Epoch, b.Txn, b.FirstSeq = pids[who], 0, true, 0
			}
			for k := 0; k < 2; k++ {
				r := recAt(off + int64(k))
				r.Delta = int64(k)
				b.Recs = append(b.Recs, r)
				all = append(all, Want{Off: off + int64(k), Key: r.Key, Value: r.Value, Headers: r.Headers, TS: r.Timestamp, HasTS: true})
				if who == 'N' {
					visible[len(all)-1] = true
				} else {
					open[who] = append(open[who], len(all)-1)
				}
			}
			b.LastOffsetDelta = 1
			batches = append(batches, b)
			off += 2
		case 'c', 'a':
			batches = append(batches, simkafka.ControlBatch(off, pids[who], 0, kind == 'c', t0))
			for _, i := range open[who] {
				visible[i] = kind == 'c'
			}
			delete(open, who)
			off++
		}
	}
	// last stable offset: first offset of the earliest transaction still open at the end of the log
	lso := off
	for _, idx := range open {
		if len(idx) > 0 && all[idx[0]].Off < lso {
			lso = all[idx[0]].Off
		}
	}
	var want []Want
	for i, w := range all {
		if !p.RC {
			want = append(want, w)
			continue
		}
		// read-committed: nothing at or beyond the last stable offset, nothing aborted
		if v, decided := visible[i]; decided && v && w.Off < lso {
			want = append(want, w)
		}
	}
	return batches, want
}

type got struct {
	off   int64
	key   []byte
	value []byte
	hdrs  [][2][]byte
	ts    time.Time
}

type pcState struct {
	pc        sarama.PartitionConsumer
	want      []Want
	got       []got
	permits   chan struct{}
	out       int // permits outstanding
	offered   map[int64]bool
	fed       int // hits of the pc.feed gate (the feeder is about to offer a message)
	fedAtRead int // value of fed when the last read was permitted
	msgClosed bool
	errClosed bool
	errs      []string
}

type icpt struct {
	r     *rig
	idx   int
	panic bool
}

func (i *icpt) OnConsume(m *sarama.ConsumerMessage) {
	if i.idx < 0 {
		// tracker: the feeder is about to offer this message on Messages(); the rig lets the
		// application read only when something has been offered, so that a reader never waits on the
		// channel while a stale expiry tick is buffered (both ready => Go picks at random)
		i.r.mu.Lock()
		st := i.r.pcs[m.Partition]
		if st.offered == nil {
			st.offered = map[int64]bool{}
		}
		st.offered[m.Offset] = true
		i.r.mu.Unlock()
		return
	}
	i.r.mu.Lock()
	i.r.icptLog[fmt.Sprintf("%d/%d/%d", m.Partition, m.Offset, i.idx)]++
	i.r.icptSeq = append(i.r.icptSeq, fmt.Sprintf("%d/%d/%d", m.Partition, m.Offset, i.idx))
	i.r.mu.Unlock()
	if i.panic {
		panic("consumer interceptor panic (deliberate)")
	}
}

type rig struct {
	errGo     chan struct{} // eslow: closed when the application starts reading Errors()
	p         *Params
	c         *gx.Ctl
	cl        *simkafka.Cluster
	mu        sync.Mutex
	pcs       []*pcState
	ready     bool
	consReady bool
	nready    int
	nstarted  int
	consume   func(i int)
	setupErr  error
	client    sarama.Client
	cons      sarama.Consumer
	closing   bool
	closed    bool
	moved     bool
	appended  int
	icptLog   map[string]int
	icptSeq   []string
	startOff  []int64
}

func run(c *gx.Ctl, p *Params) *gx.Outcome {
	r := &rig{p: p, c: c, icptLog: map[string]int{}, errGo: make(chan struct{})}
	cl := simkafka.New(c)
	r.cl = cl
	for b := 1; b <= p.NBrokers; b++ {
		cl.AddBroker(int32(b))
	}
	var leaders []int32
	for i := 0; i < p.NParts; i++ {
		leaders = append(leaders, 1)
	}
	cl.AddTopic("t", leaders...)
	cl.FetchFaults = p.Faults
	cl.MetaFaults = p.MetaFaults
	cl.BatchesPerFetch = p.BPF
	if p.AbOrder > 0 {
		cl.AbortedOrder = func(ab [][2]int64) [][2]int64 { return permute(ab, p.AbOrder) }
	}
	c.AutoRelease = func(site string) bool { return !p.Gates[site] }
	c.OnHit = func(site, topic string, n int32) {
		if site == "pc.feed" && int(n) < len(r.pcs) {
			r.mu.Lock()
			r.pcs[n].fed++
			r.mu.Unlock()
		}
	}
	for i := 0; i < p.NParts; i++ {
		part := cl.Part("t", int32(i))
		bs, want := BuildLog(p, int32(i))
		part.Batches = bs
		part.LogStart = p.Base
		r.pcs = append(r.pcs, &pcState{want: want, permits: make(chan struct{}, 64)})
	}

	conf := sarama.NewConfig()
	conf.Version = p.Version
	conf.Net.Proxy.Enable = true
	conf.Net.Proxy.Dialer = cl
	conf.Metadata.RefreshFrequency = 0
	conf.Metadata.Retry.Max = 0
	conf.Metadata.Retry.Backoff = 0
	conf.Consumer.Return.Errors = true
	// a zero back-off turns every failing redispatch into a loop that spins without ever blocking
	// durably; with a non-zero one retries are driven by (fake) time
	conf.Consumer.Retry.Backoff = 50 * time.Millisecond
	if p.BoFunc {
		conf.Consumer.Retry.Backoff = 0
		conf.Consumer.Retry.BackoffFunc = func(retries int) time.Duration { return 50 * time.Millisecond }
	}
	conf.Consumer.MaxProcessingTime = 100 * time.Millisecond
	conf.ChannelBufferSize = p.Buf
	if p.FetchSz > 0 {
		conf.Consumer.Fetch.Default = int32(p.FetchSz)
	}
	if p.FetchMax > 0 {
		conf.Consumer.Fetch.Max = int32(p.FetchMax)
	}
	if p.RC {
		conf.Consumer.IsolationLevel = sarama.ReadCommitted
	}
	conf.Consumer.Interceptors = append(conf.Consumer.Interceptors, &icpt{r: r, idx: -1})
	for i := 0; i < p.Icpt; i++ {
		if p.IcptNil == i+1 {
			conf.Consumer.Interceptors = append(conf.Consumer.Interceptors, nil)
			continue
		}
		conf.Consumer.Interceptors = append(conf.Consumer.Interceptors, &icpt{r: r, idx: i, panic: p.IcptPanic == i+1})
	}

	start := int64(0)
	switch p.Start {
	case "old":
		start = sarama.OffsetOldest
	case "new":
		start = sarama.OffsetNewest
	default:
		n, err := strconv.ParseInt(p.Start, 10, 64)
		if err != nil {
			panic(err)
		}
		start = n
	}
	go func() {
		client, err := sarama.NewClient([]string{"b1:9092"}, conf)
		if err != nil {
			r.fail(err)
			return
		}
		r.client = client
		cons, err := sarama.NewConsumerFromClient(client)
		if err != nil {
			r.fail(err)
			return
		}
		r.cons = cons
		r.mu.Lock()
		r.consReady = true
		r.mu.Unlock()
	}()
	// each ConsumePartition is an application operation of its own: it talks to the broker on the
	// connection an already running partition consumer is fetching on, so it must not race with it
	r.consume = func(i int) {
		st := r.pcs[i]
		go func() {
			pc, err := r.cons.ConsumePartition("t", int32(i), start)
			if err != nil {
				r.fail(err)
				return
			}
			r.mu.Lock()
			st.pc = pc
			r.mu.Unlock()
			go func() {
				for range st.permits {
					m, ok := <-pc.Messages()
					r.mu.Lock()
					st.out--
					if !ok {
						st.msgClosed = true
						r.mu.Unlock()
						return
					}
					g := got{off: m.Offset, key: m.Key, value: m.Value, ts: m.Timestamp}
					for _, h := range m.Headers {
						g.hdrs = append(g.hdrs, [2][]byte{h.Key, h.Value})
					}
					if m.Topic != "t" || m.Partition != int32(i) {
						g.off = -1000 - m.Offset
					}
					st.got = append(st.got, g)
					r.mu.Unlock()
				}
			}()
			go func() {
				if r.p.ESlow {
					<-r.errGo
				}
				for e := range pc.Errors() {
					r.mu.Lock()
					st.errs = append(st.errs, e.Err.Error())
					r.mu.Unlock()
				}
				r.mu.Lock()
				st.errClosed = true
				r.mu.Unlock()
			}()
			r.mu.Lock()
			r.nready++
			r.ready = r.nready == len(r.pcs)
			r.mu.Unlock()
		}()
	}
	c.Providers = append(c.Providers, r.actors)
	c.Digest = r.digest
	c.Loop(func() bool {
		r.mu.Lock()
		defer r.mu.Unlock()
		return r.setupErr != nil || r.closed
	})
	out := r.judge(start)
	c.ReleaseAll()
	for _, st := range r.pcs {
		close(st.permits)
	}
	cl.AnswerIdleFetch = true
	if !r.closed {
		// make every retry loop of the consumer stop: they are timer-driven and would keep the bubble alive
		for _, st := range r.pcs {
			if st.pc != nil {
				st.pc.AsyncClose()
				go func(st *pcState) {
					for range st.pc.Messages() {
					}
				}(st)
			}
		}
		if r.client != nil {
			go func() { r.client.Close() }()
		}
		synctest.Wait()
	}
	cl.CloseAll()
	synctest.Wait()
	return out
}

func (r *rig) fail(err error) {
	r.mu.Lock()
	r.setupErr = err
	r.mu.Unlock()
}

func permute(ab [][2]int64, k int) [][2]int64 {
	// k-th permutation in a fixed enumeration (reverse, rotate...) – small lists only
	out := append([][2]int64(nil), ab...)
	n := len(out)
	if n < 2 {
		return out
	}
	idx := make([]int, n)
	for i := range idx {
		idx[i] = i
	}
	// factorial number system
	f := 1
	for i := 2; i <= n; i++ {
		f *= i
	}
	k = k % f
	avail := append([]int(nil), idx...)
	res := make([][2]int64, 0, n)
	for i := n; i >= 1; i-- {
		f /= i
		j := k / f
		k %= f
		res = append(res, out[avail[j]])
		avail = append(avail[:j], avail[j+1:]...)
	}
	return res
}

// resolveStart fixes the start offsets (oldest/newest are evaluated against the log as it is when
// the partition consumers have been created). Caller holds r.mu.
func (r *rig) resolveStart() {
	if r.startOff != nil {
		return
	}
	for i := range r.pcs {
		part := r.cl.Part("t", int32(i))
		switch r.p.Start {
		case "old":
			r.startOff = append(r.startOff, part.LogStart)
		case "new":
			r.startOff = append(r.startOff, part.HighWaterMark())
		default:
			n, _ := strconv.ParseInt(r.p.Start, 10, 64)
			r.startOff = append(r.startOff, n)
		}
	}
}

func (r *rig) expectedFrom(st *pcState, k int) []Want {
	s := r.startOff[k]
	var w []Want
	for _, x := range st.want {
		if x.Off >= s {
			w = append(w, x)
		}
	}
	return w
}

func (r *rig) actors() []gx.Actor {
	r.mu.Lock()
	defer r.mu.Unlock()
	if r.consReady && r.nstarted < len(r.pcs) && r.nstarted == r.nready && !r.closing && r.setupErr == nil {
		i := r.nstarted
		return []gx.Actor{{Label: fmt.Sprintf("consume:p%d", i), Rank: -1, Variants: []gx.Variant{{Do: func() {
			r.mu.Lock()
			r.nstarted++
			r.mu.Unlock()
			r.consume(i)
		}}}}}
	}
	if !r.ready || r.closing {
		return nil
	}
	p := r.p
	r.resolveStart()
	var acts []gx.Actor
	allDone := true
	anyUndelivered := false
	for k, st := range r.pcs {
		k, st := k, st
		exp := r.expectedFrom(st, k)
		if st.msgClosed {
			continue
		}
		if len(st.got) < len(exp) {
			allDone = false
			anyUndelivered = true
			// a message is at the hand-off when the interceptor chain's tracker saw it - or, should the chain have
			// been skipped for it, when the feeder passed the pc.feed gate after the last read was permitted
			if st.out == 0 && (len(st.offered) > len(st.got) || st.fed > st.fedAtRead) {
				acts = append(acts, gx.Actor{Label: fmt.Sprintf("read:p%d", k), Rank: 2, Variants: []gx.Variant{{Do: func() {
					r.mu.Lock()
					st.out++
					st.fedAtRead = st.fed
					r.mu.Unlock()
					st.permits <- struct{}{}
				}}}})
			}
		}
	}
	if p.Slow && anyUndelivered && r.c.Trailing("tick:") < 3 && r.c.TrailingAny("Fetch.poll-expires", "tick:", "rel:bc.round") < 6 {
		acts = append(acts, gx.Actor{Label: "tick:mpt", Rank: 3, Variants: []gx.Variant{{Do: func() { time.Sleep(100 * time.Millisecond) }}}})
	}
	if p.Move && !r.moved && p.NBrokers > 1 {
		acts = append(acts, gx.Actor{Label: "env:move-leader", Rank: 3, Variants: []gx.Variant{{Do: func() {
			r.mu.Lock()
			r.moved = true
			r.mu.Unlock()
			part := r.cl.Part("t", 0)
			part.Leader = 2
			part.Replicas = []int32{2}
		}}}})
		allDone = false
	}
	// late records: app=1 one record for partition 0, app=2 for partition 1 (any time); app=3: first partition 0, and once
	// everything (including that record) has been delivered, partition 1 - "after one partition has recovered from its
	// trouble, its sibling receives new data"
	appendTo := -1
	switch {
	case !p.Append:
	case p.AppendMode == 3 && r.appended == 0:
		appendTo = 0
	case p.AppendMode == 3 && r.appended == 1 && !anyUndelivered && len(r.pcs) > 1 && (!p.Move || r.moved):
		appendTo = 1
	case p.AppendMode != 3 && r.appended == 0:
		appendTo = p.AppendPart
	}
	if p.Append && r.appended < 1+p.AppendMode/3 {
		allDone = false
	}
	if appendTo >= 0 {
		acts = append(acts, gx.Actor{Label: fmt.Sprintf("env:append%s", map[bool]string{true: "", false: fmt.Sprintf(":p%d", appendTo)}[p.AppendMode != 3]), Rank: 3, Variants: []gx.Variant{{Do: func() {
			r.mu.Lock()
			r.appended++
			part := r.cl.Part("t", int32(appendTo))
			st := r.pcs[appendTo]
			off := part.HighWaterMark()
			rec := recAt(off)
			b := &simkafka.StoredBatch{Base: off, Magic: 2, PID: -1, Epoch: -1, FirstSeq: -1, Recs: []simkafka.StoredRec{rec}}
			if !p.Version.IsAtLeast(sarama.V0_11_0_0) {
				b.Magic = 0
				b.Recs[0].Headers = nil
			}
			part.Batches = append(part.Batches, b)
			w := Want{Off: off, Key: rec.Key, Value: rec.Value, Headers: b.Recs[0].Headers, TS: rec.Timestamp, HasTS: b.Magic > 0}
			st.want = append(st.want, w)
			r.mu.Unlock()
		}}}})
	}
	if p.CloseAny && !allDone && len(acts) == 0 && len(r.c.Parked()) == 0 && len(r.cl.AnswerableKinds()) == 0 && r.c.Trailing("tick:") < 3 {
		// with close enabled at every point the execution never goes idle, so fake time would never pass and
		// nothing that waits for a back-off (a failed re-dispatch, a retried subscription) would ever be
		// reached: when close is the only thing left to do, letting the back-off expire comes first
		acts = append(acts, gx.Actor{Label: "tick:backoff", Rank: 3, Variants: []gx.Variant{{Do: func() { time.Sleep(60 * time.Millisecond) }}}})
	}
	if allDone || p.CloseAny {
		acts = append(acts, gx.Actor{Label: "close", Rank: 4, Variants: []gx.Variant{{Do: r.doClose}}})
	}
	return acts
}

func (r *rig) doClose() {
	r.mu.Lock()
	r.closing = true
	r.mu.Unlock()
	r.cl.AnswerIdleFetch = true // pending long polls now expire (Close waits for the fetch in flight)
	go func() {
		for _, st := range r.pcs {
			// the application keeps servicing Messages() while closing, as the API requires
			go func(st *pcState) {
				for range st.pc.Messages() {
				}
				r.mu.Lock()
				st.msgClosed = true
				r.mu.Unlock()
			}(st)
			st.pc.AsyncClose()
		}
		if r.p.ESlow {
			// ... and only now, after a while, turns to the errors channel: whatever the consumer still had to report was
			// waiting for a reader while the shutdown went on
			time.Sleep(200 * time.Millisecond)
			close(r.errGo)
		}
		if r.p.AsyncOnly {
			// the application asks the partition consumers to shut down (and keeps draining them) and closes consumer and
			// client right away, without waiting for the partition consumers to finish
			_ = r.cons.Close()
			_ = r.client.Close()
			for _, st := range r.pcs {
				_ = st.pc.Close()
			}
		} else {
			for _, st := range r.pcs {
				_ = st.pc.Close() // second close of a partition consumer must be harmless
			}
			_ = r.cons.Close()
			_ = r.client.Close() // closing the client twice must be harmless
		}
		r.mu.Lock()
		r.closed = true
		r.mu.Unlock()
	}()
}

func (r *rig) digest() string {
	r.mu.Lock()
	defer r.mu.Unlock()
	var sb strings.Builder
	for k, st := range r.pcs {
		fmt.Fprintf(&sb, "p%d:%d/%d e%d o%d;", k, len(st.got), len(st.want), len(st.errs), st.out)
	}
	fmt.Fprintf(&sb, "m%v a%v c%v P%s", r.moved, r.appended, r.closing, r.cl.PendingKinds())
	return sb.String()
}

func bstr(b []byte) string {
	if b == nil {
		return "nil"
	}
	return fmt.Sprintf("%q", b)
}

func (r *rig) judge(start int64) *gx.Outcome {
	out := &gx.Outcome{}
	r.mu.Lock()
	defer r.mu.Unlock()
	p := r.p
	if r.setupErr != nil {
		out.Obs = "setup-failed:" + r.setupErr.Error()
		// a literal start offset outside [oldest, newest] must be rejected; anything else must work
		if n, err := strconv.ParseInt(p.Start, 10, 64); err == nil && r.setupErr == sarama.ErrOffsetOutOfRange {
			part := r.cl.Part("t", 0)
			if n < part.LogStart || n > part.HighWaterMark() {
				out.Obs = "start-rejected"
				return out
			}
		}
		if len(r.cl.FaultsTaken) == 0 {
			out.Violate("C03", "setup-failed", "ConsumePartition/NewClient failed without any fault: %v", r.setupErr)
		}
		return out
	}
	for _, f := range r.cl.FaultsTaken {
		out.Stat("fault:" + f)
	}
	r.resolveStart()
	if !r.ready {
		out.Obs = "setup-incomplete"
		if len(r.cl.FaultsTaken) == 0 {
			out.Violate("C03", "setup-hangs", "ConsumePartition did not return although no fault was injected (parked=%v pending=%s)", r.c.Parked(), r.cl.PendingKinds())
		}
		return out
	}
	prop := "C03"
	if len(p.Txn) > 0 {
		prop = "C11"
	}
	var obs strings.Builder
	for k, st := range r.pcs {
		exp := r.expectedFrom(st, k)
		fmt.Fprintf(&obs, "p%d got=[", k)
		for _, g := range st.got {
			fmt.Fprintf(&obs, "%d ", g.off)
		}
		fmt.Fprintf(&obs, "] want=%d errs=%v; ", len(exp), st.errs)
		describe := func() string {
			var w []int64
			for _, x := range exp {
				w = append(w, x.Off)
			}
			var fo []int64
			for _, fe := range r.cl.Fetched {
				for _, b := range fe.Blocks {
					if b.Partition == int32(k) {
						fo = append(fo, b.Offset)
					}
				}
			}
			return fmt.Sprintf("partition %d start=%s(%d): delivered offsets %s expected %v; fetch offsets asked %v; errors %v", k, p.Start, r.startOff[k], obs.String(), w, fo, st.errs)
		}
		// exactly the expected records, in order, unaltered (a prefix if the consumer was closed early
		// or shut itself down after an out-of-range answer)
		for i, g := range st.got {
			if i >= len(exp) {
				out.Violate(prop, "extra-or-duplicate-delivery", "%s: delivered more than the log holds (offset %d)", describe(), g.off)
				break
			}
			w := exp[i]
			if g.off != w.Off {
				sig := "skipped-record"
				if g.off < w.Off {
					sig = "duplicate-or-reordered-delivery"
				}
				if prop == "C11" {
					sig = "txn-" + sig
					// refine: what kind of record was wrongly delivered / skipped
					sig += r.classifyTxn(g.off, w.Off)
				}
				out.Violate(prop, sig, "%s: position %d delivered offset %d, expected %d", describe(), i, g.off, w.Off)
				break
			}
			if !bytes.Equal(g.key, w.Key) || (g.key == nil) != (w.Key == nil) {
				out.Violate("C03", "altered-key", "%s: offset %d key %s, log holds %s", describe(), g.off, bstr(g.key), bstr(w.Key))
			}
			if !bytes.Equal(g.value, w.Value) || (g.value == nil) != (w.Value == nil) {
				out.Violate("C03", "altered-value", "%s: offset %d value %s, log holds %s", describe(), g.off, bstr(g.value), bstr(w.Value))
			}
			if len(g.hdrs) != len(w.Headers) {
				out.Violate("C03", "altered-headers", "%s: offset %d has %d headers, log holds %d", describe(), g.off, len(g.hdrs), len(w.Headers))
			} else {
				for j := range g.hdrs {
					if !bytes.Equal(g.hdrs[j][0], w.Headers[j][0]) || !bytes.Equal(g.hdrs[j][1], w.Headers[j][1]) {
						out.Violate("C03", "altered-headers", "%s: offset %d header %d differs", describe(), g.off, j)
					}
				}
			}
			if w.HasTS && !g.ts.Equal(w.TS) {
				out.Violate("C03", "altered-timestamp", "%s: offset %d timestamp %v, log holds %v", describe(), g.off, g.ts.UTC(), w.TS.UTC())
			}
			if !w.HasTS && !g.ts.IsZero() && g.ts.Unix() != 0 && g.ts.UnixNano() != -1000000 {
				out.Violate("C03", "altered-timestamp", "%s: offset %d has timestamp %v but message format 0 stores none", describe(), g.off, g.ts.UTC())
			}
		}
		// progress: unless the consumer was closed early or legitimately shut down, everything was delivered
		shutDown := false
		for _, e := range st.errs {
			if e == sarama.ErrOffsetOutOfRange.Error() {
				shutDown = true
			}
		}
		if len(st.got) < len(exp) && !p.CloseAny && !shutDown {
			out.Violate(prop, "no-progress", "%s: delivery stopped although the partition is reachable and the application keeps reading (stuck=%v parked=%v pending=%s %s)", describe(), r.c.Stuck, r.c.Parked(), r.cl.PendingKinds(), r.cl.RefetchLoop)
		}
		// interceptors: exactly once per delivered message and interceptor, at most once otherwise
		if p.Icpt > 0 {
			for _, g := range st.got {
				for j := 0; j < p.Icpt; j++ {
					if p.IcptNil == j+1 {
						continue // the nil entry records nothing
					}
					if n := r.icptLog[fmt.Sprintf("%d/%d/%d", k, g.off, j)]; n != 1 {
						out.Violate("C18", fmt.Sprintf("consumer-interceptor-ran-%d-times", min(n, 2)), "consumer interceptor %d ran %d times for delivered message %d/%d (must be exactly once); invocation order %v", j, n, k, g.off, r.icptSeq)
					}
				}
			}
			for key, n := range r.icptLog {
				if n > 1 {
					out.Violate("C18", "consumer-interceptor-ran-2-times", "consumer interceptor invoked %d times for message %s (partition/offset/interceptor); invocation order %v", n, key, r.icptSeq)
				}
			}
		}
	}
	// shutdown (C12 consumer part)
	if len(r.c.Panics) > 0 {
		out.Violate("C12", "consumer-panic", "a consumer goroutine panicked: %s", strings.SplitN(r.c.Panics[0], "\n", 2)[0])
	}
	if r.closing && !r.closed {
		out.Violate("C12", "consumer-close-hangs", "closing partition consumers / consumer / client did not complete: parked=%v pending=%s; %s", r.c.Parked(), r.cl.PendingKinds(), obs.String())
	}
	if r.closed {
		for k, st := range r.pcs {
			if !st.msgClosed || !st.errClosed {
				out.Violate("C12", "consumer-channels-not-closed", "partition %d: after Close Messages closed=%v Errors closed=%v", k, st.msgClosed, st.errClosed)
			}
		}
	}
	out.Obs = obs.String()
	if os.Getenv("VERIF_REPLAY") != "" {
		var sb strings.Builder
		for i, fe := range r.cl.Fetched {
			fmt.Fprintf(&sb, "  fetch#%d conn=%s v%d fault=%s blocks=%v\n", i, fe.Conn, fe.Version, fe.Fault, fe.Blocks)
		}
		for k := range r.pcs {
			for _, b := range r.cl.Part("t", int32(k)).Batches {
				fmt.Fprintf(&sb, "  log p%d: base=%d magic=%d codec=%d lat=%v txn=%v ctl=%v(%d) pid=%d recs=%d lastDelta=%d\n", k, b.Base, b.Magic, b.Codec, b.LogAppendTime, b.Txn, b.Control, b.ControlType, b.PID, len(b.Recs), b.LastOffsetDelta)
			}
		}
		fmt.Fprintf(&sb, "  interceptor invocations: %v\n", r.icptSeq)
		out.Detail = sb.String()
	}
	return out
}

func min(a, b int) int {
	if a < b {
		return a
	}
	return b
}

// classifyTxn names what went wrong at the first divergence of a transactional log.
func (r *rig) classifyTxn(gotOff, wantOff int64) string {
	part := r.cl.Part("t", 0)
	for _, b := range part.Batches {
		if gotOff >= b.Base && gotOff <= b.LastOffset() {
			switch {
			case b.Control:
				return " delivered-control-record"
			case b.Txn:
				return " delivered-aborted-or-open-record"
			}
		}
	}
	return ""
}
