package consrig

import (
	"fmt"
	"strconv"
	"strings"

	"github.com/Shopify/sarama"

	"verif/engine/gx"
	"verif/engine/simkafka"
)

var Assumptions = []string{
	"simkafka serves byte ranges of an independently encoded log (legacy message sets v0/v1, compressed wrappers with absolute/relative inner offsets, record batches v2, control batches, compaction gaps) the way a broker does (whole first batch from fetch v3 on, partial trailing batch otherwise); down-conversion is modelled by only offering formats legal for the fetch version",
	"interleavings are explored at broker answers, application reads, MaxProcessingTime ticks, pc.subscribe/pc.resubscribe gates, leader move and close; not at every memory access",
	"bounds: logs of <=4 (quick) / <=5 (thorough) records in the layout family; fault/schedule layer on representative logs with <=B deviations",
}

const faults = "notleader,unknown-error,missing,throttled-empty,drop"
const gates = "pc.subscribe,pc.resubscribe,pc.redispatch"

// Scenarios: the fault/schedule layer (GX) for one property.
func Scenarios(prop string) []gx.Sc {
	icpt := ""
	if prop == "C18" {
		icpt = "&icpt=2"
	}
	switch prop {
	case "C03", "C18":
		var extra []gx.Sc
		if prop == "C18" {
			// a panicking consumer interceptor in the middle of a chain of three, fast and slow reader
			extra = []gx.Sc{
				{Name: "cons?n=3&cuts=2&fmts=5&slow=1&buf=0&icpt=3&icptpanic=2&faults=" + faults + "&gates=" + gates, Q: 2, T: 3},
				{Name: "cons?n=3&cuts=1&fmts=3&ver=0.10.2.0&buf=1&icpt=3&icptpanic=3&faults=" + faults + "&gates=" + gates, Q: 1, T: 2},
				// a nil entry in the middle of the chain
				{Name: "cons?n=3&cuts=2&fmts=5&buf=1&icpt=3&icptnil=2&faults=" + faults + "&gates=" + gates, Q: 1, T: 2},
			}
		}
		return append(extra, []gx.Sc{
			{Name: "cons?n=3&cuts=2&fmts=5&slow=1&buf=0&faults=" + faults + "&gates=" + gates + icpt, Q: 3, T: 4},
			{Name: "cons?n=4&cuts=5&fmts=6,5&codec=1&slow=1&buf=1&faults=" + faults + "&gates=" + gates + icpt, Q: 2, T: 3},
			{Name: "cons?n=3&cuts=1&fmts=3&ver=0.10.2.0&slow=1&buf=0&fsz=60&faults=" + faults + "&gates=" + gates + icpt, Q: 2, T: 3},
			{Name: "cons?n=2&cuts=1&fmts=5&np=2&slow=1&buf=0&faults=" + faults + ",out-of-range&gates=" + gates + icpt, Q: 2, T: 3},
			{Name: "cons?n=3&cuts=3&fmts=5&nb=2&move=1&app=1&buf=4&bofunc=1&faults=" + faults + "&gates=" + gates + icpt, Q: 2, T: 3},
			{Name: "cons?n=3&cuts=2&fmts=0&ver=0.8.2.0&slow=1&buf=0&fsz=40&faults=" + faults + "&gates=" + gates + icpt, Q: 2, T: 3},
			// one batch per fetch: after the slow-reader path (two expiries while one message is blocked) further
			// non-empty responses follow
			{Name: "cons?n=3&cuts=3&fmts=5&bpf=1&slow=1&buf=0&faults=" + faults + "&gates=" + gates + icpt, Q: 3, T: 4},
			// two slow readers on one broker worker; the worker's hand-over of new subscriptions is a decision point too
			{Name: "cons?n=2&cuts=1&fmts=5&np=2&slow=1&buf=0&faults=drop&gates=" + gates + ",bc.round" + icpt, Q: 3, T: 4},
			// two partitions share a broker worker, one of them moves away and its re-dispatch can fail (metadata
			// says "no leader" for a while): the sibling must keep being served
			{Name: "cons?n=3&cuts=3&fmts=5&np=2&nb=2&move=1&app=3&buf=1&mfaults=leader-unavailable&faults=notleader,drop&gates=" + gates + icpt, Q: 2, T: 3},
		}...)
	case "C11":
		return []gx.Sc{
			{Name: "cons?txn=dA,dB,aA,cB,dN&iso=rc&bpf=1&slow=1&faults=" + faults + "&gates=" + gates, Q: 2, T: 3},
			{Name: "cons?txn=dA,aA,dA,cA&iso=rc&bpf=2&buf=1&slow=1&faults=" + faults + "&gates=" + gates, Q: 2, T: 3},
		}
	case "C12":
		return []gx.Sc{
			{Name: "cons?n=3&cuts=2&fmts=5&slow=1&buf=0&closeany=1&faults=" + faults + "&gates=" + gates, Q: 2, T: 3},
			{Name: "cons?n=2&cuts=1&fmts=5&np=2&slow=1&buf=1&closeany=1&faults=" + faults + ",out-of-range&gates=" + gates, Q: 2, T: 3},
			{Name: "cons?n=2&cuts=1&fmts=5&nb=2&move=1&closeany=1&faults=" + faults + "&gates=" + gates, Q: 2, T: 3},
			{Name: "cons?n=2&cuts=1&fmts=5&np=2&slow=1&buf=0&closeany=1&faults=drop&gates=" + gates + ",bc.round", Q: 3, T: 4},
			// ... and with consumer and client closed right after AsyncClose of the partition consumer (a metadata answer may
			// arrive after the client was closed)
			{Name: "cons?n=2&cuts=1&fmts=5&nb=2&move=1&app=1&closeany=1&aclose=1&mfaults=leader-unavailable&faults=notleader&gates=" + gates, Q: 2, T: 3},
			// close while a re-dispatch is under way and fails (the partition's leader moved, metadata says "no leader" for a while)
			{Name: "cons?n=2&cuts=1&fmts=5&nb=2&move=1&app=1&closeany=1&mfaults=leader-unavailable&faults=notleader&gates=" + gates, Q: 3, T: 4},
			{Name: "cons?n=3&cuts=3&fmts=5&np=2&nb=2&move=1&app=3&buf=1&closeany=1&mfaults=leader-unavailable&faults=notleader,drop&gates=" + gates, Q: 2, T: 3},
			// an application that turns to Errors() only after it asked for shutdown: an error the consumer wants to report
			// (connection failure, Kafka error) waits for a reader while the close goes on
			{Name: "cons?n=2&cuts=1&fmts=5&slow=1&buf=0&eslow=1&closeany=1&faults=drop,unknown-error&gates=" + gates, Q: 2, T: 3},
		}
	}
	return nil
}

type verInfo struct {
	v    string
	fmts []int
}

var versions = []verInfo{
	{"0.8.2.0", []int{0, 1}},
	{"0.9.0.0", []int{0, 1}},
	{"0.10.0.0", []int{0, 1, 2, 3, 4, 9, 10}},
	{"0.10.1.0", []int{0, 2, 3, 4, 10}},
	{"0.11.0.0", []int{0, 3, 4, 5, 6, 7, 8, 10}},
	{"1.1.0", []int{5, 6, 8}},
	{"2.1.0", []int{1, 3, 5, 6, 7, 8}},
	{"2.3.0", []int{5, 6}},
	{"2.8.0", []int{2, 5, 6, 8}},
}

func compressed(f int) bool { return f == 1 || f == 3 || f == 4 || f == 6 || f == 10 }

// LayoutFamily enumerates the layout layer of C03 (run with the default schedule, bound 0).
func LayoutFamily(thorough bool) []string {
	maxN := 4
	if thorough {
		maxN = 5
	}
	var out []string
	for _, vi := range versions {
		kv, _ := sarama.ParseKafkaVersion(vi.v)
		for n := 1; n <= maxN; n++ {
			for cuts := 0; cuts < 1<<(n-1); cuts++ {
				for fi, f := range vi.fmts {
					fmtLists := []string{fmt.Sprint(f)}
					if n >= 2 && cuts != 0 {
						// a log whose batches alternate between two formats (format upgrades leave mixed logs)
						g := vi.fmts[(fi+1)%len(vi.fmts)]
						if g != f {
							fmtLists = append(fmtLists, fmt.Sprintf("%d,%d", f, g))
						}
					}
					for _, fl := range fmtLists {
						codecs := []int{simkafka.CodecGzip}
						if compressed(f) {
							codecs = []int{simkafka.CodecGzip, simkafka.CodecSnappy, simkafka.CodecSnappyXerial, simkafka.CodecLZ4}
							if f == 6 && kv.IsAtLeast(sarama.V2_1_0_0) {
								codecs = append(codecs, simkafka.CodecZstd)
							}
							if !thorough && n == maxN {
								codecs = codecs[:2]
							}
						}
						for _, codec := range codecs {
							p := &Params{N: n, Cuts: cuts, Codec: codec}
							for _, x := range strings.Split(fl, ",") {
								n, _ := strconv.Atoi(x)
								p.Fmts = append(p.Fmts, n)
							}
							bs, _ := BuildLog(p, 0)
							// fetch sizes: default (everything), and at / one below / one above the end of the first and second batch
							sizes := []int{0}
							cum := 0
							for bi, b := range bs {
								if bi >= 2 {
									break
								}
								cum += len(b.Encode())
								sizes = append(sizes, cum-1, cum, cum+1)
							}
							// Fetch.Max that is not Fetch.Default * 2^k, with the first batch larger than the largest
							// doubling below the maximum but not larger than the maximum: the consumer must grow the
							// fetch size to exactly Fetch.Max before it may give up on a partial message
							if len(bs) > 0 {
								l := 0
								for _, b := range bs {
									if x := len(b.Encode()); x > l {
										l = x // the largest batch: nothing in this log is legitimately "larger than Fetch.Max"
									}
								}
								if l >= 6 {
									d := (l + 2) / 3
									out = append(out, fmt.Sprintf("cons?ver=%s&n=%d&cuts=%d&fmts=%s&codec=%d&start=old&fsz=%d&fmax=%d", vi.v, n, cuts, fl, codec, d, 3*d))
								}
							}
							starts := []string{"old", "new"}
							for s := 0; s <= n+1; s++ {
								starts = append(starts, fmt.Sprint(s))
							}
							for _, st := range starts {
								for si, sz := range sizes {
									if si > 0 && (st == "new" || st == fmt.Sprint(n+1)) {
										continue
									}
									if !thorough && si > 3 && n == maxN {
										continue
									}
									for _, ctl := range []int{0, 1} {
										if ctl == 1 && (f < 5 || f > 8 || si > 1 || (st != "old" && st != "0")) {
											continue
										}
										for _, buf := range []int{0, 2} {
											if buf == 2 && (si > 0 || st != "old") {
												continue
											}
											out = append(out, fmt.Sprintf("cons?ver=%s&n=%d&cuts=%d&fmts=%s&codec=%d&start=%s&fsz=%d&ctl=%d&buf=%d", vi.v, n, cuts, fl, codec, st, sz, ctl, buf))
										}
									}
								}
							}
						}
					}
				}
			}
		}
	}
	if !thorough {
		// one compacted record batch of five and of six records (beyond the quick bound on the log length): the surviving
		// records' positions in the batch differ from their offset deltas by more than one; every start offset
		for _, v := range []string{"0.11.0.0", "2.1.0"} {
			for _, n := range []int{5, 6} {
				for st := 0; st <= n; st++ {
					out = append(out, fmt.Sprintf("cons?ver=%s&n=%d&cuts=0&fmts=8&codec=1&start=%d&fsz=0&ctl=0&buf=0", v, n, st))
				}
			}
		}
	}
	return out
}

// TxnFamily enumerates the transactional logs of C11: every well-formed sequence of <= maxLen batches
// over {data of producer A / B (transactional), non-transactional data, commit/abort marker of A / B},
// x fetch boundaries (1, 2 or all batches per fetch) x every start offset x isolation level x every
// order of the aborted-transaction index x two protocol generations.
func TxnFamily(thorough bool) []string {
	maxLen := 5
	if thorough {
		maxLen = 6
	}
	alphabet := []string{"dA", "dB", "dN", "cA", "cB", "aA", "aB"}
	var seqs [][]string
	var rec func(cur []string, open map[byte]bool)
	rec = func(cur []string, open map[byte]bool) {
		if len(cur) > 0 {
			seqs = append(seqs, append([]string(nil), cur...))
		}
		if len(cur) == maxLen {
			return
		}
		for _, a := range alphabet {
			k, w := a[0], a[1]
			if (k == 'c' || k == 'a') && !open[w] {
				continue // a marker closes an open transaction of that producer
			}
			o2 := map[byte]bool{'A': open['A'], 'B': open['B']}
			if k == 'd' && w != 'N' {
				o2[w] = true
			}
			if k == 'c' || k == 'a' {
				o2[w] = false
			}
			rec(append(cur, a), o2)
		}
	}
	rec(nil, map[byte]bool{})
	var out []string
	for _, sq := range seqs {
		hasTxn, aborted, hwm := false, 0, 0
		for _, e := range sq {
			if e[0] == 'd' {
				hwm += 2
				if e[1] != 'N' {
					hasTxn = true
				}
			} else {
				hwm++
				if e[0] == 'a' {
					aborted++
				}
			}
		}
		if !hasTxn && len(sq) > 2 {
			continue // purely non-transactional logs are C03's business
		}
		spec := ""
		for i, e := range sq {
			if i > 0 {
				spec += ","
			}
			spec += e
		}
		perms := 1
		for i := 2; i <= aborted; i++ {
			perms *= i
		}
		for _, ver := range []string{"0.11.0.0", "2.1.0"} {
			if ver == "0.11.0.0" && len(sq) > 4 && !thorough {
				continue
			}
			for _, iso := range []string{"rc", "ru"} {
				for _, bpf := range []int{0, 1, 2} {
					if bpf == 2 && len(sq) < 3 {
						continue
					}
					for start := 0; start <= hwm; start++ {
						if len(sq) == maxLen && start > 4 && start < hwm-1 {
							continue // longest logs: the first offsets and the last two only
						}
						for abo := 0; abo < perms; abo++ {
							if iso == "ru" && abo > 0 {
								break
							}
							out = append(out, fmt.Sprintf("cons?ver=%s&txn=%s&iso=%s&bpf=%d&start=%d&abo=%d", ver, spec, iso, bpf, start, abo))
						}
					}
				}
			}
		}
	}
	// three aborted transactions in one answer (beyond the length bound above in the quick tier): one after the other, and a
	// long one overlapping two short ones; every order of the index (6), read-committed
	for _, spec := range []string{"dA,aA,dB,aB,dA,aA", "dA,dB,aB,dB,aB,aA", "dA,dB,aB,dN,dB,aB,aA"} {
		for _, ver := range []string{"0.11.0.0", "2.1.0"} {
			for _, bpf := range []int{0, 2} {
				for _, start := range []int{0, 1} {
					for abo := 0; abo < 6; abo++ {
						out = append(out, fmt.Sprintf("cons?ver=%s&txn=%s&iso=rc&bpf=%d&start=%d&abo=%d", ver, spec, bpf, start, abo))
					}
				}
			}
		}
	}
	return out
}
