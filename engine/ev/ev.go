// Package ev: evidence files, violation artefacts, known-findings matching and exit codes shared by
// every check.
package ev

import (
	"crypto/sha1"
	"encoding/hex"
	"encoding/json"
	"fmt"
	"os"
	"path/filepath"
	"sort"
	"strconv"
	"strings"
	"sync"
	"time"
)

// Root of the verification tree (/verif), overridable for snapshots run by `vp run`.
func Root() string {
	if r := os.Getenv("VERIF_ROOT"); r != "" {
		return r
	}
	return "/verif"
}

func Tier() string {
	if t := os.Getenv("VERIF_TIER"); t == "thorough" {
		return "thorough"
	}
	return "quick"
}

func Seed() int {
	n, _ := strconv.Atoi(os.Getenv("VERIF_SEED"))
	return n
}

// Deadline returns the internal wall-clock budget of a tier: when it is exceeded a search stops
// *cleanly* (exit 0, exhaustive:false, completed bound reported); it is never an oracle.
func Deadline(quick, thorough time.Duration) time.Duration {
	if v := os.Getenv("VERIF_BUDGET_S"); v != "" {
		if n, err := strconv.Atoi(v); err == nil {
			return time.Duration(n) * time.Second
		}
	}
	if Tier() == "thorough" {
		return thorough
	}
	return quick
}

type Finding struct {
	Property  string `json:"property"`
	Status    string `json:"status"` // "known" or "fixed"
	Signature string `json:"signature"`
	Commit    string `json:"commit,omitempty"`
	What      string `json:"what"`
}

type Violation struct {
	Property  string      `json:"property"`
	Signature string      `json:"signature"` // stable identification of *what* fails (defect class), matched against known_findings
	Message   string      `json:"message"`
	Check     string      `json:"check"` // which sub-check / scenario produced it
	Replay    interface{} `json:"replay"`
}

type Check struct {
	Property    string
	Level       string
	start       time.Time
	mu          sync.Mutex
	violations  []Violation
	known       map[string]int
	newCount    int
	Coverage    map[string]interface{}
	Assumptions []string
	findings    []Finding
	engineErr   []string
	nondet      []string
	printed     map[string]bool
}

func NewCheck(property, level string) *Check {
	c := &Check{Property: property, Level: level, start: time.Now(), Coverage: map[string]interface{}{}, known: map[string]int{}, printed: map[string]bool{}}
	files := []string{filepath.Join(Root(), "known_findings.json")}
	more, _ := filepath.Glob(filepath.Join(Root(), "known_findings.d", "*.json"))
	sort.Strings(more)
	for _, f := range append(files, more...) {
		b, err := os.ReadFile(f)
		if err != nil {
			continue
		}
		var all struct {
			Findings []Finding `json:"findings"`
		}
		if err := json.Unmarshal(b, &all); err != nil {
			c.EngineError(f + ": " + err.Error())
		}
		c.findings = append(c.findings, all.Findings...)
	}
	return c
}

func (c *Check) EngineError(msg string) {
	c.mu.Lock()
	defer c.mu.Unlock()
	c.engineErr = append(c.engineErr, msg)
	fmt.Printf("ENGINE-ERROR property=%s %s\n", c.Property, msg)
}

// MaxUnownedNondeterminism: executions that did not reproduce because the implementation itself resolved something at
// random (a select with two ready cases that no gate separates) are pruned and reported, not fatal, up to this many
// per run; beyond it the run is an engine error.
const MaxUnownedNondeterminism = 24

// Nondeterminism records one execution that did not reproduce when it was run again with the same decisions. The
// execution and everything below it is left out of the exploration; the evidence says so (exhaustive=false).
func (c *Check) Nondeterminism(msg string) {
	c.mu.Lock()
	defer c.mu.Unlock()
	c.nondet = append(c.nondet, msg)
	first := msg
	if i := strings.IndexByte(first, '\n'); i > 0 {
		first = first[:i]
	}
	if len(msg) > 1500 {
		msg = msg[:1500] + " …"
	}
	fmt.Printf("NOTE property=%s execution not reproducible, pruned (%d so far): %s\n", c.Property, len(c.nondet), msg)
	if len(c.nondet) > MaxUnownedNondeterminism {
		c.engineErr = append(c.engineErr, fmt.Sprintf("more than %d executions did not reproduce: %s", MaxUnownedNondeterminism, first))
		fmt.Printf("ENGINE-ERROR property=%s more than %d executions did not reproduce\n", c.Property, MaxUnownedNondeterminism)
	}
}

// Report records a violation. If its signature is listed as a *known* finding for this property it
// is printed (once per signature) as KNOWN-FINDING and does not fail the check. "fixed" entries
// suppress nothing.
func (c *Check) Report(v Violation) {
	c.mu.Lock()
	defer c.mu.Unlock()
	if v.Property == "" {
		v.Property = c.Property
	}
	for _, f := range c.findings {
		if f.Status == "known" && f.Property == v.Property && f.Signature == v.Signature {
			c.known[v.Signature]++
			if !c.printed[v.Signature] {
				c.printed[v.Signature] = true
				fmt.Printf("KNOWN-FINDING: property=%s %s [%s]\n", v.Property, f.What, v.Signature)
			}
			return
		}
	}
	c.newCount++
	c.violations = append(c.violations, v)
	if c.newCount > 25 { // keep artefacts bounded; every one is still counted
		return
	}
	b, _ := json.MarshalIndent(v, "", " ")
	h := sha1.Sum(b)
	dir := filepath.Join(Root(), "out", v.Property)
	_ = os.MkdirAll(dir, 0o755)
	p := filepath.Join(dir, hex.EncodeToString(h[:6])+".json")
	_ = os.WriteFile(p, b, 0o644)
	fmt.Printf("VIOLATION property=%s replay=%s\n", v.Property, p)
	fmt.Printf("  check=%s signature=%s\n  %s\n", v.Check, v.Signature, strings.ReplaceAll(v.Message, "\n", "\n  "))
}

func (c *Check) NewViolations() int { c.mu.Lock(); defer c.mu.Unlock(); return c.newCount }

// Add merges numeric coverage counters.
func (c *Check) Add(key string, n int) {
	c.mu.Lock()
	defer c.mu.Unlock()
	if v, ok := c.Coverage[key].(int); ok {
		c.Coverage[key] = v + n
	} else {
		c.Coverage[key] = n
	}
}

func (c *Check) Set(key string, v interface{}) { c.mu.Lock(); c.Coverage[key] = v; c.mu.Unlock() }

func (c *Check) AddSample(s interface{}) {
	c.mu.Lock()
	defer c.mu.Unlock()
	l, _ := c.Coverage["samples"].([]interface{})
	if len(l) < 8 {
		c.Coverage["samples"] = append(l, s)
	}
}

// Finish writes the evidence file and returns the process exit code: 0 held, 1 violation, 3 engine error.
func (c *Check) Finish() int {
	c.mu.Lock()
	defer c.mu.Unlock()
	kn := []string{}
	for k, n := range c.known {
		kn = append(kn, fmt.Sprintf("%s x%d", k, n))
	}
	sort.Strings(kn)
	if len(kn) > 0 {
		c.Coverage["known_findings_hit"] = kn
	}
	if len(c.nondet) > 0 {
		ex := c.nondet
		if len(ex) > 3 {
			ex = ex[:3]
		}
		short := []string{}
		for _, m := range ex {
			if len(m) > 600 {
				m = m[:600] + " …"
			}
			short = append(short, m)
		}
		c.Coverage["unowned_nondeterminism"] = map[string]interface{}{"executions_pruned": len(c.nondet), "examples": short,
			"meaning": "these executions did not reproduce when run again with the same decisions (the implementation resolved a select with two ready cases at random); they and their subtrees are not covered"}
		c.Coverage["exhaustive"] = false
	}
	if _, ok := c.Coverage["samples"]; !ok {
		c.Coverage["samples"] = []interface{}{"(none recorded)"}
	}
	e := map[string]interface{}{
		"property_id": c.Property,
		"tier":        Tier(),
		"seed":        Seed(),
		"level":       c.Level,
		"coverage":    c.Coverage,
		"assumptions": c.Assumptions,
		"wall_s":      time.Since(c.start).Seconds(),
		"violations":  c.newCount,
	}
	if c.Assumptions == nil {
		e["assumptions"] = []string{}
	}
	b, _ := json.MarshalIndent(e, "", " ")
	dir := filepath.Join(Root(), "evidence")
	if os.Getenv("VERIF_MUTANT") != "" {
		// detection demos and seeded changes are substituted through the overlay: their runs must not
		// overwrite the evidence of the tree itself
		dir = filepath.Join(Root(), ".build", "evidence-mutant")
	}
	_ = os.MkdirAll(dir, 0o755)
	if err := os.WriteFile(filepath.Join(dir, c.Property+".json"), append(b, '\n'), 0o644); err != nil {
		fmt.Println("ENGINE-ERROR cannot write evidence:", err)
		return 3
	}
	switch {
	case c.newCount > 0:
		// a violation carries its own replayable artefact (and was re-executed before being reported):
		// it stands even if some other part of the run hit an engine error
		fmt.Printf("RESULT property=%s violations=%d engine-errors=%d\n", c.Property, c.newCount, len(c.engineErr))
		return 1
	case len(c.engineErr) > 0:
		fmt.Printf("RESULT property=%s engine-error (%d)\n", c.Property, len(c.engineErr))
		return 3
	}
	fmt.Printf("RESULT property=%s held tier=%s wall=%.1fs\n", c.Property, Tier(), time.Since(c.start).Seconds())
	return 0
}
