package ev

// Diagnostic support for tools/coverage.sh (never active in a registered check: it needs VERIF_COVERDIR and a binary
// built with -cover). Worker processes are killed, not asked to exit, so the coverage runtime never gets to write its
// counters at exit; every process therefore dumps them every few seconds into <VERIF_COVERDIR>/<pid>/ (newest dump only).

import (
	"os"
	"path/filepath"
	"runtime/coverage"
	"strconv"
	"time"
)

func init() {
	dir := os.Getenv("VERIF_COVERDIR")
	if dir == "" {
		return
	}
	final := filepath.Join(dir, strconv.Itoa(os.Getpid()))
	tmp := final + ".tmp"
	if os.MkdirAll(final, 0o755) != nil || os.MkdirAll(tmp, 0o755) != nil {
		return
	}
	if coverage.WriteMetaDir(final) != nil {
		return // not built with -cover
	}
	go func() {
		for {
			time.Sleep(2 * time.Second)
			if coverage.WriteCountersDir(tmp) != nil {
				return
			}
			fresh, _ := filepath.Glob(filepath.Join(tmp, "covcounters.*"))
			old, _ := filepath.Glob(filepath.Join(final, "covcounters.*"))
			for _, f := range fresh {
				os.Rename(f, filepath.Join(final, filepath.Base(f))) // atomic: a kill never leaves half a file in final
			}
			for _, f := range old {
				os.Remove(f)
			}
		}
	}()
}
