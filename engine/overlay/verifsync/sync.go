package verifsync

import "sync"

type (
	WaitGroup = sync.WaitGroup
	Pool      = sync.Pool
	Locker    = sync.Locker
)

type Mutex struct {
	init sync.Once
	ch   chan struct{}
}

func (m *Mutex) c() chan struct{} {
	m.init.Do(func() { m.ch = make(chan struct{}, 1) })
	return m.ch
}
func (m *Mutex) Lock()   { m.c() <- struct{}{} }
func (m *Mutex) Unlock() { <-m.c() }

type Once struct {
	m    Mutex
	done bool
}

func (o *Once) Do(f func()) {
	o.m.Lock()
	defer o.m.Unlock()
	if !o.done {
		defer func() { o.done = true }()
		f()
	}
}

type RWMutex struct {
	mu      Mutex
	readers int
	writer  bool
	waiters []chan struct{}
}

func (rw *RWMutex) wake() {
	w := rw.waiters
	rw.waiters = nil
	for _, c := range w {
		close(c)
	}
}
func (rw *RWMutex) Lock() {
	for {
		rw.mu.Lock()
		if !rw.writer && rw.readers == 0 {
			rw.writer = true
			rw.mu.Unlock()
			return
		}
		c := make(chan struct{})
		rw.waiters = append(rw.waiters, c)
		rw.mu.Unlock()
		<-c
	}
}
func (rw *RWMutex) Unlock() { rw.mu.Lock(); rw.writer = false; rw.wake(); rw.mu.Unlock() }
func (rw *RWMutex) RLock() {
	for {
		rw.mu.Lock()
		if !rw.writer {
			rw.readers++
			rw.mu.Unlock()
			return
		}
		c := make(chan struct{})
		rw.waiters = append(rw.waiters, c)
		rw.mu.Unlock()
		<-c
	}
}
func (rw *RWMutex) RUnlock() { rw.mu.Lock(); rw.readers--; rw.wake(); rw.mu.Unlock() }
