package verifsync

import "sync"

type (
	WaitGroup = sync.WaitGroup
	Pool      = sync.Pool
	Locker    = sync.Locker
)

type Mutex struct {
	init sync.Once
	ch   chan struct{}
}

func (m *Mutex) c() chan struct{} {
	m.init.Do(func() { m.ch = make(chan struct{}, 1) })
	return m.ch
}
func (m *Mutex) Lock()   { m.c() <- struct{}{} }
func (m *Mutex) Unlock() { <-m.c() }

type Once struct {
	m    Mutex
	done bool
}

func (o *Once) Do(f func()) {
	o.m.Lock()
	defer o.m.Unlock()
	if !o.done {
		defer func() { o.done = true }()
		f()
	}
}

// OnLock, when non-nil, is called before every RWMutex.Lock ("W") / RLock ("R"); a scenario may
// park the caller there to interleave goroutines at lock granularity. No-op when unset.
var OnLock func(kind string)

type RWMutex struct {
	mu      Mutex
	readers int
	writer  bool
	waiters []chan struct{}
}

func (rw *RWMutex) wake() {
	w := rw.waiters
	rw.waiters = nil
	for _, c := range w {
		close(c)
	}
}
func (rw *RWMutex) Lock() {
	if f := OnLock; f != nil {
		f("W")
	}
	for {
		rw.mu.Lock()
		if !rw.writer && rw.readers == 0 {
			rw.writer = true
			rw.mu.Unlock()
			return
		}
		c := make(chan struct{})
		rw.waiters = append(rw.waiters, c)
		rw.mu.Unlock()
		<-c
	}
}
func (rw *RWMutex) Unlock() { rw.mu.Lock(); rw.writer = false; rw.wake(); rw.mu.Unlock() }
func (rw *RWMutex) RLock() {
	if f := OnLock; f != nil {
		f("R")
	}
	for {
		rw.mu.Lock()
		if !rw.writer {
			rw.readers++
			rw.mu.Unlock()
			return
		}
		c := make(chan struct{})
		rw.waiters = append(rw.waiters, c)
		rw.mu.Unlock()
		<-c
	}
}
func (rw *RWMutex) RUnlock() { rw.mu.Lock(); rw.readers--; rw.wake(); rw.mu.Unlock() }
