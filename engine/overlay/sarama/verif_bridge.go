//go:build verif

package sarama

// Bridge for the verification harness (added to package sarama through `go build -overlay`,
// never written into /repo): exports of unexported things the harness must see.

import (
	"bytes"
	"io"
	"sort"
	"time"
)

type VerifRequest struct {
	CorrelationID int32
	ClientID      string
	Key           int16
	Version       int16
	Body          interface{}
	Raw           []byte // the complete frame as read from the wire (length prefix included)
}

// VerifDecodeRequest reads one request frame with sarama's own request decoder.
func VerifDecodeRequest(r io.Reader) (*VerifRequest, error) {
	var buf bytes.Buffer
	req, _, err := decodeRequest(io.TeeReader(r, &buf))
	if err != nil {
		return nil, err
	}
	return &VerifRequest{
		CorrelationID: req.correlationID,
		ClientID:      req.clientID,
		Key:           req.body.key(),
		Version:       req.body.version(),
		Body:          req.body,
		Raw:           append([]byte(nil), buf.Bytes()...),
	}, nil
}

// VerifEncodeResponse frames a response body (length, correlation id, optional tagged-field byte).
func VerifEncodeResponse(corr int32, body interface{}) ([]byte, error) {
	e := body.(protocolBody)
	b, err := encode(e, nil)
	if err != nil {
		return nil, err
	}
	return VerifFrameResponse(corr, e.headerVersion(), b), nil
}

func VerifFrameResponse(corr int32, headerVersion int16, body []byte) []byte {
	hl := 8
	if headerVersion >= 1 {
		hl = 9
	}
	out := make([]byte, hl+len(body))
	n := uint32(len(out) - 4)
	out[0], out[1], out[2], out[3] = byte(n>>24), byte(n>>16), byte(n>>8), byte(n)
	c := uint32(corr)
	out[4], out[5], out[6], out[7] = byte(c>>24), byte(c>>16), byte(c>>8), byte(c)
	copy(out[hl:], body)
	return out
}

func VerifEncode(body interface{}) ([]byte, error) { return encode(body.(encoder), nil) }

type VerifRec struct {
	Key, Value []byte
	Headers    []RecordHeader
	Timestamp  time.Time
}

type VerifBatch struct {
	Topic     string
	Partition int32
	IsBatch   bool // record batch (magic 2) vs legacy message set
	Magic     int8
	Codec     CompressionCodec
	PID       int64
	Epoch     int16
	FirstSeq  int32
	Recs      []VerifRec
}

// VerifProduceBatches lists the per-partition content of a produce request, sorted by topic, partition.
func VerifProduceBatches(r *ProduceRequest) []VerifBatch {
	var out []VerifBatch
	for t, ps := range r.records {
		for p, rec := range ps {
			b := VerifBatch{Topic: t, Partition: p}
			if rec.RecordBatch != nil {
				rb := rec.RecordBatch
				b.IsBatch, b.Magic, b.Codec = true, rb.Version, rb.Codec
				b.PID, b.Epoch, b.FirstSeq = rb.ProducerID, rb.ProducerEpoch, rb.FirstSequence
				for _, x := range rb.Records {
					vr := VerifRec{Key: x.Key, Value: x.Value, Timestamp: rb.FirstTimestamp.Add(x.TimestampDelta)}
					for _, h := range x.Headers {
						vr.Headers = append(vr.Headers, *h)
					}
					b.Recs = append(b.Recs, vr)
				}
			} else if rec.MsgSet != nil {
				b.PID, b.Epoch, b.FirstSeq = -1, -1, -1
				for _, mb := range rec.MsgSet.Messages {
					b.Magic, b.Codec = mb.Msg.Version, mb.Msg.Codec
					for _, m := range mb.Messages() {
						b.Recs = append(b.Recs, VerifRec{Key: m.Msg.Key, Value: m.Msg.Value, Timestamp: m.Msg.Timestamp})
					}
				}
			}
			out = append(out, b)
		}
	}
	sort.Slice(out, func(i, j int) bool {
		if out[i].Topic != out[j].Topic {
			return out[i].Topic < out[j].Topic
		}
		return out[i].Partition < out[j].Partition
	})
	return out
}

type VerifFetchBlock struct {
	Topic     string
	Partition int32
	Offset    int64
	MaxBytes  int32
}

func VerifFetchBlocks(r *FetchRequest) []VerifFetchBlock {
	var out []VerifFetchBlock
	for t, ps := range r.blocks {
		for p, b := range ps {
			out = append(out, VerifFetchBlock{t, p, b.fetchOffset, b.maxBytes})
		}
	}
	sort.Slice(out, func(i, j int) bool {
		if out[i].Topic != out[j].Topic {
			return out[i].Topic < out[j].Topic
		}
		return out[i].Partition < out[j].Partition
	})
	return out
}

type VerifOffsetBlock struct {
	Topic     string
	Partition int32
	Time      int64
}

func VerifOffsetBlocks(r *OffsetRequest) []VerifOffsetBlock {
	var out []VerifOffsetBlock
	for t, ps := range r.blocks {
		for p, b := range ps {
			out = append(out, VerifOffsetBlock{t, p, b.time})
		}
	}
	sort.Slice(out, func(i, j int) bool {
		if out[i].Topic != out[j].Topic {
			return out[i].Topic < out[j].Topic
		}
		return out[i].Partition < out[j].Partition
	})
	return out
}

type VerifCommitBlock struct {
	Topic     string
	Partition int32
	Offset    int64
	Metadata  string
	Timestamp int64
}

func VerifCommitBlocks(r *OffsetCommitRequest) []VerifCommitBlock {
	var out []VerifCommitBlock
	for t, ps := range r.blocks {
		for p, b := range ps {
			out = append(out, VerifCommitBlock{t, p, b.offset, b.metadata, b.timestamp})
		}
	}
	sort.Slice(out, func(i, j int) bool {
		if out[i].Topic != out[j].Topic {
			return out[i].Topic < out[j].Topic
		}
		return out[i].Partition < out[j].Partition
	})
	return out
}

func VerifOffsetFetchPartitions(r *OffsetFetchRequest) map[string][]int32 {
	out := map[string][]int32{}
	for t, ps := range r.partitions {
		out[t] = append([]int32(nil), ps...)
	}
	return out
}

// VerifNewBroker builds a Broker value with an id (for coordinator answers).
func VerifNewBroker(id int32, addr string) *Broker { return &Broker{id: id, addr: addr} }

type VerifPOMState struct {
	Topic     string
	Partition int32
	Offset    int64
	Metadata  string
	Dirty     bool
	Done      bool
}

// VerifOffsetManagerState dumps the complete state of an offset manager (for canonical state keys).
// It takes no locks on purpose: it is called by the controller at quiescent points, when a sarama
// goroutine may be blocked on the network while holding brokerLock.
func VerifOffsetManagerState(m OffsetManager) (poms []VerifPOMState, hasBroker bool) {
	om := m.(*offsetManager)
	for _, tm := range om.poms {
		for _, p := range tm {
			poms = append(poms, VerifPOMState{p.topic, p.partition, p.offset, p.metadata, p.dirty, p.done})
		}
	}
	sort.Slice(poms, func(i, j int) bool {
		if poms[i].Topic != poms[j].Topic {
			return poms[i].Topic < poms[j].Topic
		}
		return poms[i].Partition < poms[j].Partition
	})
	hasBroker = om.broker != nil
	return
}

// VerifWarmup initialises package-level state that creates channels lazily (the shared zstd encoder and
// decoder of klauspost/compress): it must happen outside any synctest bubble, otherwise the channels
// belong to the first bubble and using them from a later one is a fatal runtime error.
func VerifWarmup() {
	for _, c := range []CompressionCodec{CompressionGZIP, CompressionSnappy, CompressionLZ4, CompressionZSTD} {
		if b, err := compress(c, CompressionLevelDefault, []byte("warm-up payload warm-up payload")); err == nil {
			_, _ = decompress(c, b)
		}
	}
}

// verifPartsClient answers Partitions / WritablePartitions from tables; every other Client method is absent (a call panics,
// which the harness reports).
type verifPartsClient struct {
	Client
	all, writable map[string][]int32
}

func (c *verifPartsClient) Partitions(topic string) ([]int32, error) {
	l, ok := c.all[topic]
	if !ok {
		return nil, ErrUnknownTopicOrPartition
	}
	return append([]int32(nil), l...), nil
}

func (c *verifPartsClient) WritablePartitions(topic string) ([]int32, error) {
	l, ok := c.writable[topic]
	if !ok {
		return nil, ErrUnknownTopicOrPartition
	}
	return append([]int32(nil), l...), nil
}

var verifBalanceConf = NewConfig()

// VerifGroupBalance performs the group leader's planning step (consumerGroup.balance: subscriptions -> partitions of the
// subscribed topics -> strategy.Plan) on a client whose metadata lists the partitions `all`, of which `writable` have a leader.
func VerifGroupBalance(st BalanceStrategy, members map[string]ConsumerGroupMemberMetadata, all, writable map[string][]int32) (BalanceStrategyPlan, error) {
	conf := *verifBalanceConf // a copy per call: workers plan concurrently
	conf.Consumer.Group.Rebalance.Strategy = st
	c := &consumerGroup{client: &verifPartsClient{all: all, writable: writable}, config: &conf, groupID: "g"}
	return c.balance(members)
}
