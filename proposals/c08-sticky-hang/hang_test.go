package sarama

import (
	"testing"
	"time"
)

// TestStickyPlanHangs builds the smallest input found on which the UNMODIFIED sticky assignor does not terminate:
// 5 members, 2 topics (X: 5 partitions, Y: 10 partitions), one rebalance in which member m2 (subscribed to X and Y)
// joins a group whose previous plan (generation 1) was
//
//	m0 {X}: X-1 X-2 X-4      m1 {X}: X-0 X-3      m3 {Y}: Y-0..Y-4      m4 {Y}: Y-5..Y-9
//
// performReassignments' outer `for` never ends: every pass moves X-1 from m1 back to m0 (substituted for X-0 by
// getTheActualPartitionToBeMoved) and then X-1 from m0 to m1 again, while X-0 stays with the overloaded m2.
func TestStickyPlanHangs(t *testing.T) {
	userData := func(topics map[string][]int32) []byte {
		data, err := encode(&StickyAssignorUserDataV1{Topics: topics, Generation: 1}, nil)
		if err != nil {
			t.Fatal(err)
		}
		return data
	}
	members := map[string]ConsumerGroupMemberMetadata{
		"m0": {Topics: []string{"X"}, UserData: userData(map[string][]int32{"X": {1, 2, 4}})},
		"m1": {Topics: []string{"X"}, UserData: userData(map[string][]int32{"X": {0, 3}})},
		"m2": {Topics: []string{"X", "Y"}}, // joins: no user data
		"m3": {Topics: []string{"Y"}, UserData: userData(map[string][]int32{"Y": {0, 1, 2, 3, 4}})},
		"m4": {Topics: []string{"Y"}, UserData: userData(map[string][]int32{"Y": {5, 6, 7, 8, 9}})},
	}
	topics := map[string][]int32{
		"X": {0, 1, 2, 3, 4},
		"Y": {0, 1, 2, 3, 4, 5, 6, 7, 8, 9},
	}

	// the previous plan is a legitimate one: without the joiner it is a fixed point of the assignor
	before := map[string]ConsumerGroupMemberMetadata{"m0": members["m0"], "m1": members["m1"], "m3": members["m3"], "m4": members["m4"]}
	plan, err := (&stickyBalanceStrategy{}).Plan(before, topics)
	if err != nil {
		t.Fatal(err)
	}
	want := BalanceStrategyPlan{
		"m0": {"X": {1, 2, 4}}, "m1": {"X": {0, 3}}, "m3": {"Y": {0, 1, 2, 3, 4}}, "m4": {"Y": {5, 6, 7, 8, 9}},
	}
	for member, assigned := range want {
		for topic, partitions := range assigned {
			got := map[int32]bool{}
			for _, p := range plan[member][topic] {
				got[p] = true
			}
			if len(got) != len(partitions) {
				t.Fatalf("previous plan is not a fixed point: %s has %v of %s, want %v", member, plan[member][topic], topic, partitions)
			}
			for _, p := range partitions {
				if !got[p] {
					t.Fatalf("previous plan is not a fixed point: %s has %v of %s, want %v", member, plan[member][topic], topic, partitions)
				}
			}
		}
	}

	type result struct {
		plan BalanceStrategyPlan
		err  error
	}
	done := make(chan result, 1)
	go func() {
		plan, err := (&stickyBalanceStrategy{}).Plan(members, topics)
		done <- result{plan, err}
	}()
	select {
	case r := <-done:
		if r.err != nil {
			t.Fatal(r.err)
		}
		t.Logf("Plan returned: %v", r.plan)
	case <-time.After(5 * time.Second):
		t.Fatal("BalanceStrategySticky.Plan did not return within 5s for 5 members / 2 topics / 15 partitions (m2 joins): performReassignments livelock")
	}
}
